#!/bin/sh
# developer aid (not a registered check): every thorough check once; prints one line per check
cd "$(dirname "$0")" || exit 2
for c in ${CHECKS:-C01 C02 C03 C04 C05 C06 C07 C08 C09 C10 C11 C12 C13 C14 C15 C16 C17 C18 C19 C20}; do
  s=$(date +%s)
  out=$(VERIF_EVIDENCE=${VERIF_EVIDENCE:-/tmp/klepto-thorough-evidence} ./check $c --tier thorough 2>&1); rc=$?
  e=$(date +%s)
  echo "$c rc=$rc t=$((e-s))s $(echo "$out" | tail -1)"
  if [ $rc -ne 0 ]; then echo "$out" | grep -E "VIOLATION|signature|MACHINERY|Error|Traceback" | cut -c1-600 | head -12; fi
done

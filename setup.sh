#!/bin/sh
# offline setup: verify the tools are present, parse every specification, byte-compile the harness
set -e
cd "$(dirname "$0")"
command -v java >/dev/null
test -f /opt/veriftools/tla/tla2tools.jar
test -x /venv/bin/python
for m in specs/*.tla; do
  (cd specs && java -cp /opt/veriftools/tla/tla2tools.jar:/opt/veriftools/tla/CommunityModules-deps.jar tla2sany.SANY "$(basename "$m")") >/tmp/klepto-verif-sany.$$ 2>&1 || { cat /tmp/klepto-verif-sany.$$; rm -f /tmp/klepto-verif-sany.$$; exit 1; }
done
rm -f /tmp/klepto-verif-sany.$$
PYTHONDONTWRITEBYTECODE=1 /venv/bin/python - <<'PY'
import glob
for f in glob.glob('harness/*.py'):
    compile(open(f).read(), f, 'exec')
PY
mkdir -p evidence replays
echo "setup ok"

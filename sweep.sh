#!/bin/sh
# developer aid (not a registered check): every quick check under several seeds; prints only what needs attention
cd "$(dirname "$0")" || exit 2
for seed in ${SEEDS:-1 2 3}; do
  for c in ${CHECKS:-C01 C02 C03 C04 C05 C06 C07 C08 C09 C10 C11 C12 C13 C14 C15 C16 C17 C18 C19 C20}; do
    out=$(VERIF_SEED=$seed ./check $c --tier ${TIER:-quick} 2>&1); rc=$?
    echo "seed=$seed $c rc=$rc $(echo "$out" | tail -1)"
    if [ $rc -ne 0 ]; then echo "$out" | grep -E "VIOLATION|signature|MACHINERY|Error|Traceback" | cut -c1-600 | head -12; fi
  done
done

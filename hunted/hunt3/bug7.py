# C12: shallow_round must leave non-float data intact, but it rebuilds EVERY
# argument as type(arg)(arg).  A class argument becomes 'type', an object with a
# one-argument constructor gets wrapped in a new instance, an iterator is drained.
import sys
from klepto.rounding import shallow_round

class Box(object):
    def __init__(self, v): self.v = v

@shallow_round(tol=1)
def ident(x, y=None):
    return x

errors = []
if ident(int) is not int:
    errors.append('ident(int) received %r' % (ident(int),))
b = Box(3)
if ident(b) is not b:
    errors.append('ident(Box(3)) received another object: .v = %r' % (ident(b).v,))
it = iter([1, 2, 3])
got = ident(it)
if list(got) != [1, 2, 3]:
    errors.append('ident(iter([1,2,3])) received an exhausted iterator')
if ident('text') != 'text' or ident(2.54) != 2.5 or ident([2.54, 'x']) != [2.5, 'x']:
    errors.append('basic rounding broken')
if errors:
    print('FAIL: shallow_round altered non-float arguments:')
    for e in errors: print('  ', e)
    sys.exit(1)
print('ok')

# C09: passing a parameter by keyword must give the same key as passing it
# positionally.  If the parameter is called 'func' or 'ignored' the keyword form
# collides with _keygen(func, ignored, *args, **kwds) and the call blows up.
import sys
import klepto
from klepto.keymaps import stringmap

n = [0]
@klepto.inf_cache(keymap=stringmap(flat=False))
def apply(func, x):
    n[0] += 1
    return (func, x)

@klepto.inf_cache(keymap=stringmap(flat=False))
def g(x, ignored=None):
    return (x, ignored)

errors = []
apply('abs', 2)
try:
    apply(func='abs', x=2)
    if apply.info().hit != 1:
        errors.append("apply(func='abs', x=2) was not a hit: %s" % (apply.info(),))
except TypeError as e:
    errors.append("apply(func='abs', x=2) raised TypeError: %s" % e)
g(1, 5)
try:
    g(1, ignored=5)
    if g.info().hit != 1:
        errors.append("g(1, ignored=5) was not a hit: %s" % (g.info(),))
except TypeError as e:
    errors.append("g(1, ignored=5) raised TypeError: %s" % e)
# same for the inspection helpers
try:
    ok = klepto.isvalid(lambda func: 0, func=1)
    if ok is not True: errors.append('isvalid(lambda func: 0, func=1) -> %r' % ok)
except TypeError as e:
    errors.append("isvalid(lambda func: 0, func=1) raised TypeError: %s" % e)
if errors:
    print('FAIL: keyword spelling of a parameter named func/ignored:')
    for e in errors: print('  ', e)
    sys.exit(1)
print('ok')

# C10: flat stringmap with a sentinel configured: a single variadic positional
# of a 'fast type' is unwrapped from its tuple BEFORE str() is applied, so
# f(1) and f('1') (or f(None) and f('None')) get the same key.
import sys
import klepto
from klepto.keymaps import stringmap

@klepto.inf_cache(keymap=stringmap(sentinel='|'))
def kind(*args):
    return tuple(type(a).__name__ for a in args)

errors = []
for a, b in ((1, '1'), (None, 'None'), (b'x', "b'x'")):
    ra, rb = kind(a), kind(b)
    if rb != (type(b).__name__,):
        errors.append('kind(%r) returned %r: answered with the result of kind(%r)' % (b, rb, a))
    if kind.key(a) == kind.key(b):
        errors.append('key(%r) == key(%r) == %r' % (a, b, kind.key(a)))
if errors:
    print('FAIL: stringmap(flat=True, sentinel=...) merges calls with unequal arguments:')
    for e in errors: print('  ', e)
    sys.exit(1)
print('ok')

# C19: partial that passes, by keyword, a name that is a POSITIONAL-ONLY
# parameter of the wrapped function.
import sys, functools
import klepto

def f(a, /, b=1, **kw): return (a, b, kw)
def g(a, /, b): return (a, b)

cases = [
    (functools.partial(f, a=9), (1,), {}),        # valid: 'a' goes to **kw
    (functools.partial(f, a=9), (), {}),          # invalid: positional a missing
    (functools.partial(f, 1, a=9), (), {}),       # valid
    (functools.partial(f, 1, a=9), (2,), {'z': 3}),  # valid
    (functools.partial(g, a=9), (), {'b': 0}),    # invalid: a is positional-only
]
errors = []
for p, args, kwds in cases:
    try:
        p(*args, **kwds); expect = True
    except TypeError:
        expect = False
    got = klepto.isvalid(p, *args, **kwds)
    if got is not expect:
        errors.append('partial(%s, *%r, **%r)(*%r, **%r): python %s, isvalid %s'
                      % (p.func.__name__, p.args, p.keywords, args, kwds, expect, got))
if errors:
    print('FAIL: isvalid disagrees with the interpreter:')
    for e in errors: print('  ', e)
    sys.exit(1)
print('ok')

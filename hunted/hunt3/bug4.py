# C19 (and C09): bound methods of an instance that is *falsy* (empty container
# subclass, __bool__ -> False, __len__ -> 0) keep 'self' in the signature.
import sys
import klepto
from klepto.keymaps import stringmap

class Bag(list):
    def add(self, x, y=2):
        return x + y

empty, full = Bag(), Bag([0])
errors = []
for name, bag in (('full', full), ('empty', empty)):
    bag.add(1)                                   # the call itself is fine
    if klepto.isvalid(bag.add, 1) is not True:
        errors.append('isvalid(%s.add, 1) is False although %s.add(1) works' % (name, name))
    if klepto.isvalid(bag.add, 1, 2, 3) is not False:
        errors.append('isvalid(%s.add, 1, 2, 3) is True although the call raises TypeError' % name)
    if klepto.signature(bag.add)[0] != ('x', 'y'):
        errors.append('signature(%s.add) names %r' % (name, klepto.signature(bag.add)[0]))
# consequence for keys: positional and keyword spelling no longer collapse
kg = klepto.keygen(keymap=stringmap(flat=False))(empty.add)
try:
    k1, k2 = kg(1), kg(x=1)
    if k1 != k2: errors.append('keys of empty.add(1) / empty.add(x=1) differ: %r vs %r' % (k1, k2))
except TypeError as e:
    errors.append('key of empty.add(1) raised %s' % e)
if errors:
    print('FAIL:')
    for e in errors: print('  ', e)
    sys.exit(1)
print('ok')

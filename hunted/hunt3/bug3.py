# C11: adding 'self' to the ignore spec shifts the meaning of every positional
# index by one, so a NON-ignored parameter is dropped from the key (wrong result)
# and the selected one still discriminates.
import sys
import klepto
from klepto.keymaps import keymap
from klepto._inspect import _keygen, NULL

class B(object):
    @klepto.inf_cache(keymap=keymap(), ignore=('self', 0))   # selects only 'self' (by name and by index)
    def m(self, x, y):
        return (x, y)

b = B()
errors = []
r1 = b.m(1, 2)
r2 = b.m(5, 2)       # x differs and x is not ignored
if r2 != (5, 2):
    errors.append("ignore=('self', 0): b.m(5, 2) returned %r, the cached result of b.m(1, 2)" % (r2,))

# the same with index 1 (= 'x' in m(self, x, y)): plain ignore=(1,) NULLs x ...
def m(self, x, y): return (x, y)
class C(object): pass
C.m = m
c = C()
k_plain = _keygen(m, (1,), c, 1, 2)[1]
k_self = _keygen(m, ('self', 1), c, 1, 2)[1]
if k_plain.get('x') is not NULL:
    errors.append('ignore=(1,) does not ignore x: %r' % (k_plain,))
if k_self.get('x') is not NULL or k_self.get('y') is NULL:
    errors.append("ignore=('self', 1): x should be ignored and y kept, got %r" % (k_self,))
if errors:
    print('FAIL:')
    for e in errors: print('  ', e)
    sys.exit(1)
print('ok')

# C09: a cached *method* whose 'self' is not ignored cannot be called at all:
# _keygen moves every named argument (including 'self') into kwds, and then
# keymap.__call__(self, *args, **kwds) is invoked with kwds={'self': ...}.
import sys
import klepto
from klepto.keymaps import stringmap, keymap

class A(object):
    calls = 0
    @klepto.inf_cache(keymap=stringmap(flat=False))
    def m(self, x):
        A.calls += 1
        return x + 1
    def __repr__(self): return 'A()'

def free(self, x):   # a plain function with a parameter called 'self'
    return x
cfree = klepto.lru_cache(keymap=keymap())(free)

errors = []
a = A()
for name, call in [('a.m(3)', lambda: a.m(3)), ('a.m(x=3)', lambda: a.m(x=3)),
                   ('free(1, 2)', lambda: cfree(1, 2)), ('free(self=1, x=2)', lambda: cfree(self=1, x=2))]:
    try:
        call()
    except TypeError as e:
        errors.append('%s raised TypeError: %s' % (name, e))
if A.calls and A.m.info().hit != 1:
    errors.append('a.m(3); a.m(x=3) -> no hit: %s' % (A.m.info(),))
if errors:
    print('FAIL: valid calls of cached functions with a parameter named self:')
    for e in errors: print('  ', e)
    sys.exit(1)
print('ok')

# C12: with deep=True the rounding pass iterates over every iterable argument to
# build the key.  One-shot iterators/generators are thereby exhausted before
# the function sees them: the function does NOT receive the caller's arguments.
import sys
import klepto
from klepto.keymaps import stringmap, keymap

@klepto.lru_cache(maxsize=10, keymap=keymap(), tol=1, deep=True)
def total(it):
    return sum(it)

@klepto.inf_cache(keymap=keymap(), tol=1, deep=True)
def first(it, default=None):
    return next(it, default)

errors = []
r = total(iter([1.0, 2.0, 3.0]))
if r != 6.0:
    errors.append('total(iter([1.0, 2.0, 3.0])) returned %r instead of 6.0' % (r,))
r = total(x * x for x in (1, 2, 3))
if r != 14:
    errors.append('total(generator of ints) returned %r instead of 14' % (r,))
r = first(iter('abc'))
if r != 'a':
    errors.append("first(iter('abc')) returned %r instead of 'a'" % (r,))
# without deep everything is fine, so it is the rounding that alters the input
@klepto.lru_cache(maxsize=10, keymap=keymap(), tol=1)
def total2(it):
    return sum(it)
assert total2(iter([1.0, 2.0, 3.0])) == 6.0
if errors:
    print('FAIL: deep rounding consumed the arguments handed to the function:')
    for e in errors: print('  ', e)
    sys.exit(1)
print('ok')

# C11 / C09: a partial that fixes an extra keyword (one that lands in **kw),
# cached with ignore='**'.  p(1) and p(1, z=9) bind identical values, and
# p(1, z=5) differs from them only in an ignored argument, yet p(1) gets its
# own key (the partial's z leaks into it) and the function is re-evaluated.
import sys, functools
import klepto
from klepto.keymaps import keymap

calls = [0]
def f(a, **kw):
    calls[0] += 1
    return a
p = functools.partial(f, z=9)
c = klepto.inf_cache(keymap=keymap(), ignore='**')(p)

c(1, z=5)
c(1, z=9)
n_before = calls[0]           # 1: z is ignored, fine
c(1)                          # same as p(1, z=9); differs from the above only in ignored **kw
errors = []
if n_before != 1:
    errors.append('c(1, z=5); c(1, z=9) evaluated %d times' % n_before)
if calls[0] != 1:
    errors.append("c(1) re-evaluated the function although only ignored '**' keywords differ; keys: %r vs %r"
                  % (c.key(1), c.key(1, z=9)))
if errors:
    print("FAIL: ignore='**' on a partial with preset extra keywords:")
    for e in errors: print('  ', e)
    sys.exit(1)
print('ok')

# C10: picklemap(serializer='json') is offered as a serializer
# (klepto.crypto.serializers()) but is not information preserving: tuple vs list
# arguments and int vs str dict keys serialize identically, so one call is
# answered with the other's result.
import sys
import klepto
from klepto.keymaps import picklemap
assert 'json' in klepto.crypto.serializers()

@klepto.inf_cache(keymap=picklemap(serializer='json', flat=False))
def describe(x):
    return '%s:%r' % (type(x).__name__, x)

errors = []
for a, b in (((1, 2), [1, 2]), ({1: 2}, {'1': 2})):
    ra, rb = describe(a), describe(b)
    if rb != '%s:%r' % (type(b).__name__, b):
        errors.append('describe(%r) returned %r (the cached result of describe(%r))' % (b, rb, a))
if errors:
    print("FAIL: picklemap(serializer='json') merges unequal calls:")
    for e in errors: print('  ', e)
    sys.exit(1)
print('ok')

# C09 (and C17): with picklemap(serializer='pickle') the key depends on object
# IDENTITY of the argument values, not only on their values: pickle memoizes
# by id(), so f(s, s) and f(s, equal_copy_of_s) pickle differently, and
# f(name='name') differs depending on whether the value happens to be the
# interned string that is also the parameter name.
import sys, pickle
import klepto
from klepto.keymaps import picklemap

calls = [0]
@klepto.inf_cache(keymap=picklemap(serializer='pickle'))
def copyfile(src, dst):
    calls[0] += 1
    return (src, dst)

s1 = ''.join(['some/', 'path.txt'])
s2 = ''.join(['some/', 'path.txt'])      # equal value, distinct object (as when read from a file/argv)
assert s1 == s2 and s1 is not s2
copyfile(s1, s1)
copyfile(s1, s2)                          # binds exactly the same values
errors = []
if calls[0] != 1:
    errors.append('copyfile(s, s) then copyfile(s, equal_s): evaluated %d times, info=%s' % (calls[0], copyfile.info()))

kg = klepto.keygen(keymap=picklemap(serializer='pickle', flat=False))(lambda name: 0)
k1 = kg('name')                           # literal: same interned object as the parameter name
k2 = kg(''.join(['na', 'me']))            # equal string built at run time
if k1 != k2:
    errors.append("key(name='name') differs for equal strings: %r vs %r" % (k1, k2))
if errors:
    print('FAIL: picklemap(serializer=pickle) keys depend on object identity:')
    for e in errors: print('  ', e)
    sys.exit(1)
print('ok')

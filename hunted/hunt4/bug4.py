"""C20: a cached function whose archive is the (picklable) in-memory sqlite
table archive loses the whole archive content in the dill round trip; the clone
then re-evaluates where the original loads."""
import sys, dill
import klepto
from klepto.archives import sqltable_archive

rc = 0
def make(evals):
    @klepto.lru_cache(maxsize=2, cache=sqltable_archive(cached=True))   # sqlite ':memory:'
    def f(x):
        evals.append(x)
        return x * 10
    return f

e1 = []
f = make(e1)
for x in (1, 2, 3, 4): f(x)          # 1 and 2 are evicted into the archive
g = dill.loads(dill.dumps(f))

fa = dict(f.__cache__().archive); ga = dict(g.__cache__().archive)
print("archive of original:", sorted(fa.values()))
print("archive of clone   :", sorted(ga.values()))
if fa != ga:
    print("FAIL: archive contents differ after the round trip"); rc = 1

n = len(e1)
rf = f(1); inf_f = f.info()
rg = g(1); inf_g = g.info()
print("original:", rf, inf_f); print("clone   :", rg, inf_g)
if tuple(inf_f) != tuple(inf_g):
    print("FAIL: same continuation, different statistics (original loads, clone re-evaluates)"); rc = 1
if not rc: print("OK")
sys.exit(rc)

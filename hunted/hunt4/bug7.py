"""C14: a reader that iterates / bulk-loads a dir_archive while another process
removes one (other) key either fails with KeyError (bulk load) or reports a
phantom key that was never stored (iteration: the directory name '3' instead of
the int key 3): entries are listed first and read afterwards."""
import os, sys, shutil, subprocess, tempfile

tmp = tempfile.mkdtemp(prefix='klepto_bug7_')
rc = 0
try:
    root = os.path.join(tmp, 'arch')
    from klepto.archives import dir_archive
    w = dir_archive(root, cached=False)
    for k in (1, 2, 3):          # int keys, as produced by the default keymap
        w[k] = k * 10

    popper = ("from klepto.archives import dir_archive\n"
              "d = dir_archive(%r, cached=False)\n"
              "assert d.pop(%%d) == %%d\n") % root

    # schedule: reader lists the entries ... other process pops one entry that the
    # reader has not read yet ... reader goes on reading
    state = {'armed': False, 'fired': False, 'victim': None}
    def hook(event, args):
        if event != 'open' or not state['armed'] or state['fired']: return
        path = args[0]
        if not isinstance(path, str) or not path.startswith(root + os.sep): return
        state['fired'] = True
        reading = os.path.basename(os.path.dirname(path))        # e.g. 'K_2'
        victim = [k for k in (1, 2, 3) if 'K_%d' % k != reading][-1]
        state['victim'] = victim
        p = subprocess.run([sys.executable, '-c', popper % (victim, victim * 10)],
                           capture_output=True, text=True, timeout=60)
        if p.returncode: raise SystemExit("popper failed: " + p.stderr)
    sys.addaudithook(hook)

    for what in ('iteration', 'bulk load'):
        for k in (1, 2, 3): w[k] = k * 10                       # restore
        r = dir_archive(root, cached=(what == 'bulk load'))
        state.update(armed=True, fired=False)
        try:
            if what == 'iteration': got = list(r.keys())
            else: r.load(); got = list(r.keys())
            print("%s with concurrent pop(%s): reader got keys %r" % (what, state['victim'], got))
            phantom = [k for k in got if not (type(k) is int and k in (1, 2, 3))]
            if phantom:
                print("FAIL: %s shows key(s) %r that were never stored (stored keys are the ints 1, 2, 3)"
                      % (what, phantom))
                rc = 1
        except Exception as e:
            print("FAIL: %s by a reader failed with %s(%s) while another process popped key %s"
                  % (what, type(e).__name__, e, state['victim']))
            rc = 1
        finally:
            state['armed'] = False
    if not rc: print("OK")
finally:
    shutil.rmtree(tmp, ignore_errors=True)
sys.exit(rc)

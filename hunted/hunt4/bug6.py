"""C20: default keymap (python hash) + str arguments: a cached function restored
from its pickle in another interpreter (different string-hash seed) has all its
entries, but can never find them again: the clone misses where the original hits."""
import os, sys, shutil, subprocess, tempfile

tmp = tempfile.mkdtemp(prefix='klepto_bug6_')
rc = 0
try:
    pk = os.path.join(tmp, 'f.pkl')
    common = ("import dill, klepto\n")
    first = common + (
        "@klepto.lru_cache(maxsize=4)\n"
        "def f(name):\n"
        "    return name.upper()\n"
        "f('alpha'); f('beta')\n"
        "dill.dump(f, open(%r, 'wb'))\n"
        "f('alpha')\n"                                  # what the original does next
        "print(tuple(f.info()))\n") % pk
    second = common + (
        "f = dill.load(open(%r, 'rb'))\n"
        "assert sorted(f.__cache__().values()) == ['ALPHA', 'BETA']\n"
        "f('alpha')\n"                                  # same continuation on the clone
        "print(tuple(f.info()))\n") % pk
    def run(code, seed):
        env = dict(os.environ, PYTHONHASHSEED=str(seed))
        p = subprocess.run([sys.executable, '-c', code], env=env, capture_output=True, text=True, timeout=60)
        if p.returncode: raise SystemExit("helper failed: " + p.stderr)
        return p.stdout.strip()
    a = run(first, 1)
    b = run(second, 2)
    print("original continues with f('alpha'):", a)
    print("restored clone  does   f('alpha'):", b)
    if a != b:
        print("FAIL: (hit, miss, load, maxsize, size) differ: the clone re-evaluates a call "
              "whose result is resident in its restored cache")
        rc = 1
    else:
        print("OK")
finally:
    shutil.rmtree(tmp, ignore_errors=True)
sys.exit(rc)

"""C18: with picklemap(serializer='pickle'|'dill') the key depends on object
IDENTITY of the arguments (pickle memoises repeated objects), so key()/lookup()
for the very same argument values disagree with the key the call was stored under."""
import sys
import klepto
from klepto.keymaps import picklemap

rc = 0
for ser in ('pickle', 'dill'):
    evals = []
    @klepto.inf_cache(keymap=picklemap(serializer=ser))
    def f(x, y):
        evals.append((x, y))
        return x + y

    a = 'hello world!'
    b = ''.join(['hello ', 'world!'])       # equal value, distinct object
    assert a == b and a is not b and type(a) is type(b)

    f(a, a)                                  # the call (a, a) == (a, b) is now resident
    stored = list(f.__cache__().keys())[0]
    k = f.key(a, b)                          # same argument values
    print(ser, "stored key == key(a, b):", stored == k)
    if stored != k:
        print("FAIL[%s]: key('hello world!', 'hello world!') differs from the key under "
              "which f('hello world!', 'hello world!') was stored" % ser)
        rc = 1
    try:
        v = f.lookup(a, b)
    except KeyError:
        print("FAIL[%s]: lookup raises KeyError although the result for these arguments is resident" % ser)
        rc = 1
    f(a, b)
    if len(evals) != 1:
        print("FAIL[%s]: function evaluated %d times for identical argument values; info=%s"
              % (ser, len(evals), f.info()))
        rc = 1
if not rc: print("OK")
sys.exit(rc)

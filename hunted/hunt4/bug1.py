"""C14 (also C13): opening a file_archive in a process that cannot unpickle one
stored value silently reads the archive as {} and rewrites it, destroying every
entry written (and completed) by another process."""
import os, sys, shutil, subprocess, tempfile

tmp = tempfile.mkdtemp(prefix='klepto_bug1_')
env = dict(os.environ)
rc = 0
try:
    lib = os.path.join(tmp, 'lib'); os.mkdir(lib)
    with open(os.path.join(lib, 'shapes.py'), 'w') as f:
        f.write("class P(object):\n"
                "    def __init__(self, v): self.v = v\n"
                "    def __eq__(self, o): return isinstance(o, P) and self.v == o.v\n"
                "    def __repr__(self): return 'P(%r)' % self.v\n")
    arch = os.path.join(tmp, 'a.pkl')
    def run(code):
        p = subprocess.run([sys.executable, '-c', code], env=env,
                           capture_output=True, text=True, timeout=60)
        if p.returncode: raise SystemExit("helper failed: " + p.stderr)
        return p.stdout.strip()
    # process 1: knows module 'shapes'; completes two writes
    writer = ("import sys; sys.path.insert(0, %r); import shapes\n"
              "from klepto.archives import file_archive\n"
              "a = file_archive(%r, cached=False)\n"
              "a['p'] = shapes.P(1); a['q'] = 2\n"
              "print(sorted(a.keys()))") % (lib, arch)
    print("writer sees      :", run(writer))
    # process 2: merely opens the archive (module 'shapes' not importable here)
    opener = ("from klepto.archives import file_archive\n"
              "a = file_archive(%r, cached=False)\n"
              "print(sorted(a.keys()))") % arch
    print("opener sees      :", run(opener))
    # process 3: same environment as the writer, reads again
    reader = ("import sys; sys.path.insert(0, %r); import shapes\n"
              "from klepto.archives import file_archive\n"
              "a = file_archive(%r, cached=False)\n"
              "print(sorted(a.keys()))") % (lib, arch)
    after = run(reader)
    print("writer-env reader:", after)
    if after != "['p', 'q']":
        print("FAIL: merely opening the archive in another process destroyed the "
              "completed writes 'p' and 'q' (even the plain int under 'q'); "
              "expected ['p', 'q'], got %s" % after)
        rc = 1
    else:
        print("OK")
finally:
    shutil.rmtree(tmp, ignore_errors=True)
sys.exit(rc)

"""C20: a cached function defined in an importable module is pickled by dill BY
REFERENCE (just 'module.name'): no cache contents, statistics or configuration
are serialised.  In the same process the 'copy' IS the original (state not
independent); in another process the restored function starts empty."""
import os, sys, shutil, subprocess, tempfile
import dill

tmp = tempfile.mkdtemp(prefix='klepto_bug5_')
rc = 0
try:
    with open(os.path.join(tmp, 'h4_cachedmod.py'), 'w') as fh:
        fh.write("import klepto\n"
                 "@klepto.lru_cache(maxsize=3)\n"
                 "def f(x):\n"
                 "    return x * 2\n")
    sys.path.insert(0, tmp)
    import h4_cachedmod
    f = h4_cachedmod.f
    f(1); f(2); f(1)
    blob = dill.dumps(f)
    print("pickle is %d bytes: %r" % (len(blob), blob))
    g = dill.loads(blob)
    g(7)                                     # a call on the copy ...
    print("original after calling the copy:", f.info())
    if g is f or tuple(f.info()) != (1, 2, 0, 3, 2):
        print("FAIL: copy and original share their in-memory state (copy is original: %s)" % (g is f))
        rc = 1
    # restore in a fresh process
    pk = os.path.join(tmp, 'f.pkl')
    with open(pk, 'wb') as fh: fh.write(blob)
    code = ("import sys, dill; sys.path.insert(0, %r)\n"
            "g = dill.load(open(%r, 'rb'))\n"
            "print(tuple(g.info()), len(g.__cache__()))") % (tmp, pk)
    out = subprocess.run([sys.executable, '-c', code], capture_output=True, text=True, timeout=60)
    print("restored in a fresh process:", out.stdout.strip(), out.stderr.strip()[-200:])
    if out.stdout.strip() != "(1, 2, 0, 3, 2) 2":
        print("FAIL: restored function does not have the original's cache contents/statistics "
              "(hit=1, miss=2, size=2 at the time of pickling)")
        rc = 1
    if not rc: print("OK")
finally:
    shutil.rmtree(tmp, ignore_errors=True)
sys.exit(rc)

"""C14: merely opening an existing file_archive (cached=False) is a whole-file
read-modify-write (archive.update({})).  A write completed by another process
between the opener's read and its rename is lost."""
import os, sys, shutil, subprocess, tempfile

tmp = tempfile.mkdtemp(prefix='klepto_bug2_')
rc = 0
try:
    arch = os.path.join(tmp, 'a.pkl')
    from klepto.archives import file_archive
    a = file_archive(arch, cached=False)
    a['old'] = 0
    del a

    writer = ("from klepto.archives import file_archive\n"
              "a = file_archive(%r, cached=True)\n"      # cached=True: opening does not write
              "a.archive['new'] = 1\n"
              "assert file_archive(%r, cached=True).archive['new'] == 1\n") % (arch, arch)

    # schedule: opener reads the file ... writer runs to completion ... opener renames
    real_replace = os.replace
    fired = []
    def replace(src, dst, *args, **kwds):
        if not fired and os.path.abspath(dst) == os.path.abspath(arch):
            fired.append(1)
            p = subprocess.run([sys.executable, '-c', writer], capture_output=True, text=True, timeout=60)
            if p.returncode: raise SystemExit("writer failed: " + p.stderr)
        return real_replace(src, dst, *args, **kwds)
    os.replace = replace
    try:
        b = file_archive(arch, cached=False)   # merely open the existing archive
    finally:
        os.replace = real_replace
    if not fired:
        print("OK: opening did not rewrite the archive"); sys.exit(0)

    check = ("from klepto.archives import file_archive\n"
             "print(sorted(file_archive(%r, cached=False).items()))") % arch
    out = subprocess.run([sys.executable, '-c', check], capture_output=True, text=True, timeout=60).stdout.strip()
    print("fresh process sees:", out)
    if out != "[('new', 1), ('old', 0)]":
        print("FAIL: the write of 'new' had completed (and was read back) before the "
              "opener finished, but merely opening the archive erased it")
        rc = 1
    else:
        print("OK")
finally:
    shutil.rmtree(tmp, ignore_errors=True)
sys.exit(rc)

"""C20: for a RECURSIVE cached function the restored clone is not independent of
the original: the clone's inner function still resolves its own name to the
ORIGINAL wrapper, so calling the clone fills the original's cache / counters and
the clone's own statistics are not those the original would have reported."""
import sys, dill
import klepto

def make():
    @klepto.lru_cache(maxsize=4)
    def fib(n):
        return n if n < 2 else fib(n - 1) + fib(n - 2)
    return fib

@klepto.lru_cache(maxsize=4)
def fib(n):
    return n if n < 2 else fib(n - 1) + fib(n - 2)

rc = 0
fib(10)
clone = dill.loads(dill.dumps(fib))
assert clone is not fib
before = (tuple(fib.info()), dict(fib.__cache__()))
print("original before:", fib.info())
r = clone(14)                                   # continuation on the clone only
print("clone(14) =", r, " clone:", clone.info())
print("original after :", fib.info())
if (tuple(fib.info()), dict(fib.__cache__())) != before:
    print("FAIL: calling the clone changed the original's cache contents / statistics")
    rc = 1
# what the original would have reported for the same history + continuation
twin = make(); twin(10); twin(14)               # independent, identical function
print("an identical function doing fib(10); fib(14) itself:", twin.info())
if tuple(clone.info()) != tuple(twin.info()):
    print("FAIL: clone reports %s, the original would have reported %s" % (clone.info(), twin.info()))
    rc = 1
if not rc: print("OK")
sys.exit(rc)

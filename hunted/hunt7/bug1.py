"""C19 (also C09): a callable instance that carries a __name__ (e.g. a class-based
decorator that used functools.update_wrapper(self, f)), and a class used as a
callable, are inspected WITHOUT dropping the bound 'self' parameter."""
import sys, functools
import klepto
from klepto import isvalid, validate, signature, inf_cache
from klepto.keymaps import keymap

def g(x, y=1):
    return x + y

class Deco(object):               # a perfectly ordinary class-based decorator
    def __init__(self, f):
        functools.update_wrapper(self, f)   # gives the instance a __name__
    def __call__(self, x, y=1):
        return ('called', x, y)

class Klass(object):              # a class used as a callable
    def __init__(self, x, y=1):
        self.x, self.y = x, y

errors = []
d = Deco(g)
# python accepts d(1) and d(1, 2), rejects d(1, 2, 3)
for args, ok in (((1,), True), ((1, 2), True), ((1, 2, 3), False), ((), False)):
    try: d(*args); py = True
    except TypeError: py = False
    assert py == ok
    got = isvalid(d, *args)
    if got != py:
        errors.append("isvalid(callable_instance, *%r) = %r but python binding says %r [signature=%r]"
                      % (args, got, py, signature(d)))
for args, ok in (((1,), True), ((1, 2, 3), False)):
    try: Klass(*args); py = True
    except TypeError: py = False
    got = isvalid(Klass, *args)
    if got != py:
        errors.append("isvalid(Klass, *%r) = %r but python binding says %r [signature=%r]"
                      % (args, got, py, signature(Klass)))
# C09: same call spelled two ways gets two keys
f = inf_cache(keymap=keymap())(d)
if f.key(1, 2) != f.key(1, y=2):
    errors.append("key(1, 2) = %r != key(1, y=2) = %r for the callable instance" % (f.key(1, 2), f.key(1, y=2)))

if errors:
    print("DEFECT:\n  " + "\n  ".join(errors))
    sys.exit(1)
print("ok")

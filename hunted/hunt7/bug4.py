"""C12: the standalone shallow_round decorator must only round floats and leave
all other data intact; a dict argument whose keys are 2-item sequences
(2-character strings, pairs) is rebuilt as dict(list_of_keys) and the function
receives a corrupted dict."""
import sys
from klepto.rounding import shallow_round

@shallow_round(tol=1)
def ident(d):
    return d

errors = []
for arg in ({'ab': 1.26}, {'id': 7, 'xy': 'text'}, {(1, 2): 3.33}):
    got = ident(dict(arg))
    # oracle: same keys; float values may be rounded to 1 decimal, nothing else changes
    want_keys = set(arg)
    if not isinstance(got, dict) or set(got) != want_keys:
        errors.append("shallow_round(tol=1): f(%r) received %r" % (arg, got))
# a dict with other keys is passed through untouched (so this is not 'by design')
assert ident({'a': 1.26, 'abc': 2}) == {'a': 1.26, 'abc': 2}

if errors:
    print("DEFECT:\n  " + "\n  ".join(errors))
    sys.exit(1)
print("ok")

"""C10: chaining keymaps with '+' silently drops the options (sentinel, flat,
typed) of the LEFT operand, so a configuration that is information-preserving
on its own ("flat with a sentinel", "non-flat", "typed") merges distinct calls
and the cache answers one call with another call's result."""
import sys
from klepto import inf_cache
from klepto.keymaps import keymap, stringmap, hashmap, SENTINEL

def va(*args, **kwds):
    return (args, kwds)

errors = []
# sanity: each left operand alone separates the two calls
for km in (keymap(sentinel=SENTINEL), keymap(flat=False), stringmap(sentinel=SENTINEL)):
    assert km('a', 1) != km(a=1), km

chains = [
    ("keymap(sentinel=SENTINEL) + stringmap()", keymap(sentinel=SENTINEL) + stringmap()),
    ("keymap(sentinel=SENTINEL) + hashmap(algorithm='md5')", keymap(sentinel=SENTINEL) + hashmap(algorithm='md5')),
    ("stringmap(sentinel=SENTINEL) + hashmap(algorithm='md5')", stringmap(sentinel=SENTINEL) + hashmap(algorithm='md5')),
    ("keymap(flat=False) + stringmap()", keymap(flat=False) + stringmap()),
]
for name, km in chains:
    f = inf_cache(keymap=km)(va)
    r1 = f('a', 1)
    r2 = f(a=1)
    if f.key('a', 1) == f.key(a=1):
        errors.append("%s: key('a', 1) == key(a=1) == %r" % (name, f.key(a=1)))
    if r2 != ((), {'a': 1}):
        errors.append("%s: f(a=1) returned %r (the result of f('a', 1))" % (name, r2))

# typed on the left operand is dropped as well
km = keymap(typed=True) + keymap()
g = inf_cache(keymap=km)(lambda x: type(x).__name__)
r = (g(1), g(1.0))
if r != ('int', 'float'):
    errors.append("keymap(typed=True) + keymap(): g(1), g(1.0) -> %r, keys %r / %r" % (r, g.key(1), g.key(1.0)))

if errors:
    print("DEFECT:\n  " + "\n  ".join(errors))
    sys.exit(1)
print("ok")

"""C19 (also C09): functools.partial of a partial that python does not flatten
(the inner partial has an attribute set, e.g. a label) is inspected as
(*args, **kwargs)."""
import sys
from functools import partial
from klepto import isvalid, signature, inf_cache
from klepto.keymaps import keymap

def g(x, y, z=3):
    return (x, y, z)

inner = partial(g, 1)
inner.label = 'inner'          # any instance attribute: C partial no longer flattens
pp = partial(inner, 2)         # pp.func is the inner partial, pp(…) == g(1, 2, …)
assert pp.func is inner and pp() == (1, 2, 3) and pp(z=5) == (1, 2, 5) and pp(5) == (1, 2, 5)

errors = []
cases = [((), {}), ((5,), {}), ((), {'z': 5}), ((5, 6), {}), ((1, 2, 3, 4), {}), ((), {'q': 1}), ((), {'x': 1})]
for a, k in cases:
    try: pp(*a, **k); py = True
    except TypeError: py = False
    got = isvalid(pp, *a, **k)
    if got != py:
        errors.append("isvalid(pp, *%r, **%r) = %r but python binding says %r" % (a, k, got, py))
f = inf_cache(keymap=keymap())(pp)
if f.key(5) != f.key(z=5):
    errors.append("pp(5) and pp(z=5) bind identically but keys differ: %r vs %r" % (f.key(5), f.key(z=5)))
if errors:
    print("DEFECT (signature(pp) = %r):\n  " % (signature(pp),) + "\n  ".join(errors))
    sys.exit(1)
print("ok")

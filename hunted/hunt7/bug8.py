"""C09: 'for every keymap type, flat or not' equivalent calls share a key and the
second call is served from the cache.  The raw keymap with flat=False builds
(args, {kwds}) - a tuple holding a dict - which is never hashable, so every
cache decorator raises TypeError on the very first call of any function."""
import sys
from klepto import inf_cache, lru_cache, lfu_cache, mru_cache, rr_cache, no_cache
from klepto.keymaps import keymap

errors = []
for deco in (inf_cache, lru_cache, lfu_cache, mru_cache, rr_cache, no_cache):
    calls = []
    def add(x, y=1):
        calls.append((x, y)); return x + y
    f = deco(keymap=keymap(flat=False))(add)
    try:
        r = (f(1, 2), f(1, y=2), f(x=1, y=2))
    except TypeError as e:
        errors.append("%s(keymap=keymap(flat=False)): f(1, 2) raised TypeError: %s" % (deco.__name__, e))
        continue
    if r != (3, 3, 3):
        errors.append("%s: wrong results %r" % (deco.__name__, r))
    if deco is not no_cache and len(calls) != 1:
        errors.append("%s: equivalent calls evaluated %d times" % (deco.__name__, len(calls)))
if errors:
    print("DEFECT:\n  " + "\n  ".join(errors))
    sys.exit(1)
print("ok")

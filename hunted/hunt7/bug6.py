"""C10: picklemap(serializer='json') is offered as a pickle keymap
(klepto.crypto.serializers() lists 'json') but is not information preserving:
tuple/list arguments and int/str dict keys collapse, so unequal calls share a
key and the cache returns another call's result; with typed=True every call
fails."""
import sys
from klepto import inf_cache
from klepto.keymaps import picklemap
from klepto.crypto import serializers
assert 'json' in serializers()

errors = []
for flat in (True, False):
    f = inf_cache(keymap=picklemap(serializer='json', flat=flat))(lambda x: repr(x))
    pairs = [((1, 2), [1, 2]), ({1: 'a'}, {'1': 'a'}), ((), [])]
    for a, b in pairs:
        assert a != b
        ra, rb = f(a), f(b)
        if f.key(a) == f.key(b) or rb != repr(b):
            errors.append("flat=%s: f(%r) and f(%r) share key %r; f(%r) returned %s"
                          % (flat, a, b, f.key(b), b, rb))
try:
    g = inf_cache(keymap=picklemap(serializer='json', typed=True))(lambda x: x)
    g(1)
except TypeError as e:
    errors.append("typed=True: valid call g(1) fails: TypeError: %s" % e)
if errors:
    print("DEFECT:\n  " + "\n  ".join(errors))
    sys.exit(1)
print("ok")

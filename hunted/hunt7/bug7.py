"""C12: rounding must never make a valid call fail.  A dict argument that
contains itself is a valid argument (stringmap/picklemap key it as
{'self': {...}}), a self-containing LIST is survived by deep rounding, but a
self-containing DICT makes every tol/deep=True call raise RecursionError."""
import sys
from klepto import inf_cache, lru_cache, keygen
from klepto.keymaps import stringmap
from klepto.rounding import deep_round

d = {'n': 1.26}
d['self'] = d
l = [1.26]
l.append(l)

errors = []
plain = inf_cache(keymap=stringmap())(lambda x: len(x))
assert plain(d) == 2 and plain(l) == 2                 # valid without rounding
for name, deco in (("inf_cache", inf_cache), ("lru_cache", lru_cache)):
    f = deco(keymap=stringmap(), tol=1, deep=True)(lambda x: len(x))
    assert f(l) == 2                                   # the list case is handled
    try:
        r = f(d)
        if r != 2: errors.append("%s: wrong result %r" % (name, r))
    except RecursionError as e:
        errors.append("%s(tol=1, deep=True): f(self-containing dict) raised RecursionError (same call without tol returns 2)" % name)
    # also when the dict sits inside a keyword argument
    try: f(x=d)
    except RecursionError: errors.append("%s(tol=1, deep=True): f(x=self-containing dict) raised RecursionError" % name)
if errors:
    print("DEFECT:\n  " + "\n  ".join(errors))
    sys.exit(1)
print("ok")

"""C12 (and C10): with tol set and deep=True, a mapping argument that is not a
dict subclass (collections.ChainMap, collections.UserDict) is rebuilt from its
KEYS only on the key path, so its values - ints and strings, never floats -
disappear from the cache key; calls with different values share one entry and
the cache returns the wrong result."""
import sys, collections
from klepto import inf_cache
from klepto.keymaps import stringmap, picklemap

errors = []
for kmname, km in (("stringmap()", stringmap()), ("picklemap()", picklemap())):
    # reference: without rounding the two calls are distinct
    ref = inf_cache(keymap=km)(lambda m: m['ab'])
    CM = collections.ChainMap
    assert ref.key(CM({'ab': 1})) != ref.key(CM({'ab': 2}))

    f = inf_cache(keymap=km, tol=1, deep=True)(lambda m: m['ab'])
    r = (f(CM({'ab': 1})), f(CM({'ab': 2})))
    if r != (1, 2):
        errors.append("%s tol=1 deep=True: f(ChainMap({'ab':1})), f(ChainMap({'ab':2})) -> %r; key=%r"
                      % (kmname, r, f.key(CM({'ab': 2}))))
    UD = collections.UserDict
    h = inf_cache(keymap=km, tol=1, deep=True)(lambda m: m['ab'])
    r = (h(UD({'ab': 'one'})), h(UD({'ab': 'two'})))
    if r != ('one', 'two'):
        errors.append("%s tol=1 deep=True: f(UserDict({'ab':'one'})), f(UserDict({'ab':'two'})) -> %r; key=%r"
                      % (kmname, r, h.key(UD({'ab': 'two'}))))
if errors:
    print("DEFECT:\n  " + "\n  ".join(errors))
    sys.exit(1)
print("ok")

"""C20: a cached function defined at the top level of an importable module (the common case) is NOT
serialised with its cache.  update_wrapper() gives the wrapper the __module__/__qualname__ of the
user function, so dill finds `module.f` by name and pickles a mere reference: in the same process
the "copy" IS the original (state not independent), and in another process the restored function
has an empty cache and zeroed statistics (it recomputes where the original hits).
(The same function body defined in __main__ or nested is pickled by value and round-trips fine.)"""
import os, sys, subprocess, tempfile, shutil

MOD = '''
from klepto import lru_cache
from klepto.keymaps import stringmap
calls = []
@lru_cache(maxsize=4, keymap=stringmap())
def f(x):
    calls.append(x)
    return x * 10
'''
LOAD = r'''
import sys, dill
sys.path.insert(0, sys.argv[2])
with open(sys.argv[1], 'rb') as fh: g = dill.load(fh)
print(tuple(g.info()), sorted(g.__cache__().items()))
'''
def main():
    root = tempfile.mkdtemp()
    try:
        with open(os.path.join(root, 'hunt8_cached_mod.py'), 'w') as fh: fh.write(MOD)
        sys.path.insert(0, root)
        import dill, hunt8_cached_mod as m
        f = m.f
        f(1); f(2); f(1)                                  # hit=1 miss=2, cache holds two entries
        blob = dill.dumps(f)
        want = (tuple(f.info()), sorted(f.__cache__().items()))
        errors = []
        # (a) same process: copy must be independent of the original
        g = dill.loads(blob)
        g(3)
        if tuple(f.info()) != want[0]:
            errors.append('same process: calling the restored copy changed the ORIGINAL: %s -> %s (copy is original: %s)'
                          % (want[0], tuple(f.info()), g is f))
        # (b) another process: cache contents and statistics must come along
        path = os.path.join(root, 'f.pkl')
        with open(path, 'wb') as fh: fh.write(blob)
        r = subprocess.run([sys.executable, '-c', LOAD, path, root], capture_output=True, text=True)
        assert r.returncode == 0, r.stderr
        if r.stdout.strip() != '%s %s' % want:
            errors.append('other process: original had %s %s, restored function has %s' % (want + (r.stdout.strip(),)))
        if errors:
            print('FAIL (C20): module-level cached function is pickled by reference (%d bytes):' % len(blob))
            for e in errors: print('  -', e)
            return 1
        print('ok'); return 0
    finally:
        shutil.rmtree(root, ignore_errors=True)

if __name__ == '__main__':
    sys.exit(main())

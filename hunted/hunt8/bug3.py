"""C14 (file archive: "a process merely opening the archive ... never causes a completed write
to be lost"; also C13 "sees every untouched key unchanged").
file_archive.__asdict__ turns ANY failure to read the file into an empty dict, and every
mutating operation is read-modify-write.  So a second process in which ONE stored value cannot be
unpickled (its class lives in a module that process cannot import) destroys ALL entries written
by the first process: merely by opening the archive with cached=False, or by storing an unrelated
key through a cached handle and dumping.  (A dir_archive in the same situation only fails for
the one unreadable key.)"""
import os, sys, subprocess, tempfile, shutil

WRITER = r'''
import sys; sys.path.insert(0, sys.argv[2])
import hunt8_points
from klepto.archives import file_archive
ar = file_archive(sys.argv[1], cached=False)
ar['n'] = 42
ar['p'] = hunt8_points.P(1, 2)
'''
OPENER = r'''
import sys
from klepto.archives import file_archive
ar = file_archive(sys.argv[1], cached=False)       # merely open it
'''
OTHERKEY = r'''
import sys
from klepto.archives import file_archive
ar = file_archive(sys.argv[1])                     # cached handle
ar['k'] = 1                                        # an unrelated key
ar.dump()
'''
READER = r'''
import sys; sys.path.insert(0, sys.argv[2])
from klepto.archives import file_archive
ar = file_archive(sys.argv[1], cached=False)
print(sorted(ar.keys()))
'''
def run(src, *args):
    return subprocess.run([sys.executable, '-c', src] + list(args), capture_output=True, text=True)

def scenario(second, root, tag):
    path = os.path.join(root, tag + '.pkl')
    r = run(WRITER, path, root);  assert r.returncode == 0, r.stderr
    before = run(READER, path, root).stdout.strip()
    r = run(second, path)                          # process that cannot import hunt8_points
    after = run(READER, path, root).stdout.strip()
    return before, after, r.returncode

def main():
    root = tempfile.mkdtemp()
    try:
        with open(os.path.join(root, 'hunt8_points.py'), 'w') as f:
            f.write('class P(object):\n    def __init__(self, x, y): self.x, self.y = x, y\n')
        bad = 0
        b, a, rc = scenario(OPENER, root, 'open')
        if not set(eval(b)) <= set(eval(a)):
            print('FAIL: after another process merely OPENED the archive (exit code %s): keys %s -> %s' % (rc, b, a)); bad = 1
        b, a, rc = scenario(OTHERKEY, root, 'other')
        if not set(eval(b)) <= set(eval(a)):
            print("FAIL: after another process stored the unrelated key 'k' (exit code %s): keys %s -> %s" % (rc, b, a)); bad = 1
        if not bad: print('ok')
        return bad
    finally:
        shutil.rmtree(root, ignore_errors=True)

if __name__ == '__main__':
    sys.exit(main())

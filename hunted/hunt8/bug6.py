"""C20: with the DEFAULT keymap (hashmap(flat=True), python's hash()) the keys held in the pickled
cache are hash values of the process that made them.  Restoring the function in another interpreter
(the usual reason to pickle it) where str hashing is salted differently (PYTHONHASHSEED, random by
default) gives a function whose cache contents look equal but can never be hit for str/bytes
arguments: the clone reports a miss (and recomputes, and evicts a live entry) where the original
reports a hit.  No hash collision is involved."""
import os, sys, subprocess, tempfile, shutil

SAVE = r'''
import sys, dill
from klepto import lru_cache
@lru_cache(maxsize=2)                      # default keymap
def f(name):
    return name.upper()
f('alpha'); f('beta')
with open(sys.argv[1], 'wb') as fh: dill.dump(f, fh)
f('alpha')                                 # what the original does next: a hit
print(tuple(f.info()), f.lookup('beta'))
'''
LOAD = r'''
import sys, dill
with open(sys.argv[1], 'rb') as fh: g = dill.load(fh)
g('alpha')
try: looked = g.lookup('beta')
except KeyError: looked = '<KeyError>'
print(tuple(g.info()), looked)
'''
def run(src, path, seed):
    env = dict(os.environ, PYTHONHASHSEED=str(seed))
    r = subprocess.run([sys.executable, '-c', src, path], capture_output=True, text=True, env=env)
    assert r.returncode == 0, r.stderr
    return r.stdout.strip()

def main():
    root = tempfile.mkdtemp()
    try:
        path = os.path.join(root, 'f.pkl')
        orig = run(SAVE, path, 1)
        same = run(LOAD, path, 1)          # control: same salt -> identical behaviour
        other = run(LOAD, path, 2)
        if same != orig:
            print('harness problem (control differs):', orig, same); return 2
        if other != orig:
            print("FAIL (C20): after f('alpha'), f('beta'), pickle, then f('alpha') and lookup('beta'):")
            print('   original                        :', orig)
            print('   clone restored in another process:', other)
            return 1
        print('ok'); return 0
    finally:
        shutil.rmtree(root, ignore_errors=True)

if __name__ == '__main__':
    sys.exit(main())

"""C14 (file archive: "a process merely opening the archive ... never causes a completed write
to be lost").  file_archive.__init__ does   if not os.path.exists(filename): self.__save__({})
-- a check-then-create.  Two processes start on a location where the archive does not exist yet:
   A: os.path.exists(file) -> False
   B: opens the archive, stores 'k' = 1, returns            (a completed write)
   A: self.__save__({})  -> os.replace(temp, file)           (B's entry is gone)
A only OPENS the archive.  The schedule is forced by wrapping os.path.exists in process A
(the real answer is computed first, then A waits for B to finish); klepto itself is untouched."""
import os, sys, time, subprocess, tempfile, shutil

def wait_for(path, timeout=20):
    t0 = time.time()
    while not os.path.exists(path):
        if time.time() - t0 > timeout: raise SystemExit('harness timeout: %s' % path)
        time.sleep(0.01)

def proc_A(root):
    target = os.path.join(root, 'memo.pkl')
    real = os.path.exists
    def exists(p):
        res = real(p)
        if os.path.abspath(str(p)) == target and not res and not real(os.path.join(root, 'A_checked')):
            open(os.path.join(root, 'A_checked'), 'w').close()     # A has looked: no file
            t0 = time.time()
            while not real(os.path.join(root, 'B_done')):           # ... now B runs to completion
                if time.time() - t0 > 20: raise SystemExit('harness timeout')
                time.sleep(0.01)
        return res
    os.path.exists = exists
    from klepto.archives import file_archive
    file_archive(target)                      # merely open (default: cached=True)

def proc_B(root):
    from klepto.archives import file_archive
    ar = file_archive(os.path.join(root, 'memo.pkl'), cached=False)
    ar['k'] = 1

def main():
    root = tempfile.mkdtemp()
    try:
        me = os.path.abspath(__file__)
        A = subprocess.Popen([sys.executable, me, 'A', root])
        wait_for(os.path.join(root, 'A_checked'))
        rb = subprocess.call([sys.executable, me, 'B', root])
        from klepto.archives import file_archive
        mid = dict(file_archive(os.path.join(root, 'memo.pkl'), cached=False).items())
        open(os.path.join(root, 'B_done'), 'w').close()
        ra = A.wait()
        end = dict(file_archive(os.path.join(root, 'memo.pkl'), cached=False).items())
        if ra or rb: print('FAIL: a process raised', ra, rb); return 1
        if mid != {'k': 1}: print('harness problem: B did not store', mid); return 2
        if end != {'k': 1}:
            print("FAIL (C14): B's completed write {'k': 1} was lost because A merely opened the archive: now", end)
            return 1
        print('ok'); return 0
    finally:
        shutil.rmtree(root, ignore_errors=True)

if __name__ == '__main__':
    if len(sys.argv) == 3: {'A': proc_A, 'B': proc_B}[sys.argv[1]](sys.argv[2])
    else: sys.exit(main())

"""C13: cache.sync(clear=True) on a file / directory archive is "archive.clear(); archive.update(cache)".
A process killed between the two steps leaves the archive EMPTY: keys that the operation only
re-writes (same or new value) are neither at their previous nor at their new value, they are gone.
Every crash point (file-system call issued under the archive location) is enumerated by killing
a child process with os._exit() from an audit hook just before the N-th call."""
import os, sys, subprocess, tempfile, shutil, json

CHILD = r'''
import os, sys
root, kind, op, N = sys.argv[1], sys.argv[2], sys.argv[3], int(sys.argv[4])
from klepto.archives import dir_archive, file_archive
def mk(cached):
    p = os.path.join(root, 'ar')
    return dir_archive(p, cached=cached) if kind == 'dir' else file_archive(p + '.pkl', cached=cached)
if op == 'init':
    a = mk(False); a['a'] = 1; a['b'] = 2
elif op == 'read':
    import json; print(json.dumps(dict(mk(False).items())))
else:
    c = mk(True); c.load()            # cache == archive == {'a': 1, 'b': 2}
    c['a'] = 10; c['e'] = 5           # new value for 'a', new key 'e'; 'b' unchanged
    n = [0]
    def hook(ev, args):
        if ev in ('open', 'os.mkdir', 'os.rename', 'os.remove', 'os.rmdir', 'os.listdir', 'os.scandir', 'shutil.rmtree') \
           and any(isinstance(x, str) and root in x for x in args):
            if n[0] == N: os._exit(9)        # "kill -9" just before this file-system call
            n[0] += 1
    sys.addaudithook(hook)
    c.sync(clear=True)
'''
def run(*a): return subprocess.run([sys.executable, '-c', CHILD] + [str(x) for x in a], capture_output=True, text=True)

def mk(root, kind):
    from klepto.archives import dir_archive, file_archive
    p = os.path.join(root, 'ar')
    return dir_archive(p, cached=False) if kind == 'dir' else file_archive(p + '.pkl', cached=False)

def main():
    bad = []
    for kind in ('file', 'dir'):
        N = 0
        while N < 200:
            root = tempfile.mkdtemp()
            try:
                a = mk(root, kind); a['a'] = 1; a['b'] = 2
                rc = run(root, kind, 'sync', N).returncode
                try: d = dict(mk(root, kind).items())      # fresh uncached handle: reads the disk
                except Exception as e: bad.append((kind, N, 'archive unreadable: %r' % e))
                else:
                    ok = d.get('a') in (1, 10) and d.get('b') == 2 and d.get('e') in (None, 5) and set(d) <= {'a', 'b', 'e'}
                    if not ok: bad.append((kind, N, d))
            finally:
                shutil.rmtree(root, ignore_errors=True)
            if rc != 9: break
            N += 1
    if bad:
        print("FAIL (C13): archive was {'a': 1, 'b': 2}; cache {'a': 10, 'b': 2, 'e': 5}; killed during cache.sync(clear=True);")
        print("   a fresh process must see a in (1,10), b == 2, e absent or 5 -- but:")
        for kind, N, d in bad[:6]: print('   %s_archive, killed before fs call #%d: archive = %r' % (kind, N, d))
        print('   (%d bad crash points in total)' % len(bad))
        return 1
    print('ok'); return 0

if __name__ == '__main__':
    sys.exit(main())

"""C20: a cached function whose archive is the (in-memory) sqlite sql_archive()/sqltable_archive()
loses everything that was evicted/dumped to the archive when it is round-tripped through dill:
sqltable_archive.__reduce__ only reconnects to 'sqlite:///:memory:', i.e. to a NEW empty database.
The clone then recomputes (miss) where the original loads from its archive."""
import sys, dill
from klepto import lru_cache
from klepto.archives import sql_archive
from klepto.keymaps import stringmap

calls = []
@lru_cache(maxsize=2, cache=sql_archive(), keymap=stringmap())   # default name -> sqlite :memory:
def f(x):
    calls.append(x)
    return x * 10

for x in (1, 2, 3, 4):          # 1 and 2 are evicted from the cache into the archive
    f(x)

g = dill.loads(dill.dumps(f))
cf, cg = f.__cache__(), g.__cache__()
errors = []
if dict(cf) != dict(cg):
    errors.append('cache differs: %r vs %r' % (dict(cf), dict(cg)))
af, ag = cf.archive.__asdict__(), cg.archive.__asdict__()
if af != ag:
    errors.append('archive contents differ after the round trip:\n     original: %r\n     clone   : %r' % (af, ag))
# one more step in lock-step: an argument that lives in the archive only
rf = f(1); rg = g(1)
if tuple(f.info()) != tuple(g.info()):
    errors.append('after calling f(1) on both:\n     original %s\n     clone    %s' % (f.info(), g.info()))
if errors:
    print('FAIL (C20): pickled copy of a function cached on an in-memory sql archive does not resume where the original was')
    for e in errors: print('  -', e)
    sys.exit(1)
print('ok')

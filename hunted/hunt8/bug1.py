"""C14: two processes storing DIFFERENT keys in one dir_archive lose / cross-wire entries
when both have seeded the global `random` generator identically (e.g. random.seed(0) at the
start of each worker for reproducibility): the staging directory name is derived from
random.random() (klepto/_archives.py: _store -> TEMP+hash(random(),'md5')), so both writers
populate and rename THE SAME staging directory.

Schedule (made deterministic with flag files; the pause is inside the value's pickling,
i.e. between the open() and the write() of writer A's output file):
   A: seed(7); starts  ar['a'] = 'value-of-a'   (staging dir created, output.pkl opened)
   B: seed(7);         ar['b'] = 'value-of-b'   (complete)
   A: finishes its store
Expected afterwards: {'a': 'value-of-a', 'b': 'value-of-b'}.
"""
import os, sys, time, subprocess, tempfile, shutil

def wait_for(path, timeout=20):
    t0 = time.time()
    while not os.path.exists(path):
        if time.time() - t0 > timeout:
            raise SystemExit('harness timeout waiting for %s' % path)
        time.sleep(0.01)

class Slow(object):
    "pickles as the plain string 'value-of-a', but pauses while being pickled"
    def __init__(self, root): self.root = root
    def __reduce__(self):
        open(os.path.join(self.root, 'A_in_dump'), 'w').close()
        wait_for(os.path.join(self.root, 'B_done'))
        return (str, ('value-of-a',))

def worker(role, root):
    import random
    random.seed(7)                       # "reproducible" worker
    from klepto.archives import dir_archive
    ar = dir_archive(os.path.join(root, 'arch'), cached=False)
    if role == 'A':
        ar['a'] = Slow(root)
    else:
        ar['b'] = 'value-of-b'

def main():
    root = tempfile.mkdtemp()
    try:
        me = os.path.abspath(__file__)
        A = subprocess.Popen([sys.executable, me, 'A', root])
        wait_for(os.path.join(root, 'A_in_dump'))
        rb = subprocess.call([sys.executable, me, 'B', root])
        open(os.path.join(root, 'B_done'), 'w').close()
        ra = A.wait()
        if ra or rb:
            print('FAIL: a writer raised (A=%s, B=%s)' % (ra, rb)); return 1
        from klepto.archives import dir_archive
        got = dict(dir_archive(os.path.join(root, 'arch'), cached=False).items())
        want = {'a': 'value-of-a', 'b': 'value-of-b'}
        if got != want:
            print('FAIL (C14): both writers returned normally, on distinct keys, but a fresh handle sees')
            print('   ', got, ' instead of ', want)
            return 1
        print('ok'); return 0
    finally:
        shutil.rmtree(root, ignore_errors=True)

if __name__ == '__main__':
    if len(sys.argv) == 3: worker(sys.argv[1], sys.argv[2])
    else: sys.exit(main())

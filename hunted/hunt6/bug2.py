"""C03/C04: dir_archive(serialized=False) stores entries whose key is not a
python identifier (tuple keys of the default keymap, floats, 'a.b', 'a b'), but
can never read them back, and one such entry breaks iteration of the archive."""
import os, shutil, sys, tempfile
from klepto._archives import dir_archive

root = tempfile.mkdtemp()
errors = []
try:
    for i, k in enumerate([(1, 2), 1.5, 'a.b', 'a b']):
        d2 = dir_archive(os.path.join(root, 'memo%d' % i), serialized=False)
        d2['a'] = 1
        d2[k] = 7          # no error
        m2 = {'a': 1, k: 7}
        if (k in d2) != (k in m2):
            errors.append("%r in archive -> %r" % (k, k in d2))
        try:
            if d2[k] != 7: errors.append("d[%r] != 7" % (k,))
        except KeyError as e:
            errors.append("d[%r] = 7 succeeded, (%r in d) is %r, len(d) is %d, but d[%r] raises KeyError"
                          % (k, k, k in d2, len(d2), k))
        try:
            got = dict(d2.items())
            if got != m2: errors.append("items() -> %r, expected %r" % (got, m2))
        except Exception as e:
            errors.append("after d[%r] = 7: items() raises %s(%s); a dict gives %r"
                          % (k, type(e).__name__, e, m2))
        try:
            got = dict(dir_archive(d2.__state__['id'], serialized=False).items())
            if got != m2: errors.append("fresh handle items() -> %r, expected %r" % (got, m2))
        except Exception as e:
            errors.append("fresh handle after d[%r] = 7: items() raises %s(%s)" % (k, type(e).__name__, e))
finally:
    shutil.rmtree(root, ignore_errors=True)
if errors:
    print("FAIL: dir_archive(serialized=False) with non-identifier keys:")
    for e in errors: print("  -", e)
    sys.exit(1)
print("ok")

"""C03: on the sqlite fallback, archives stored under table names that differ
only in letter case (or 'memo' vs 'main.memo') are one and the same table:
operations on one archive change the archive stored under the other name."""
import os, shutil, sys, tempfile
from klepto._archives import sqltable_archive

root = tempfile.mkdtemp()
errors = []
try:
    db = 'sqlite:///' + os.path.join(root, 'store.db')
    for n1, n2 in [('results', 'Results'), ('memo', 'main.memo')]:
        a = sqltable_archive(db, n1)
        b = sqltable_archive(db, n2)
        if a.name == b.name:
            continue
        b['kept'] = 'b-data'
        a['x'] = 1
        if 'x' in b:
            errors.append("archive %r: a['x']=1 on archive %r made b == %r" % (n2, n1, dict(b.items())))
        a.clear()
        if dict(b.items()) != {'kept': 'b-data'}:
            errors.append("archive %r: clear() of archive %r left b == %r (expected {'kept': 'b-data'})"
                          % (n2, n1, dict(b.items())))
        a._conn.close(); b._conn.close()
finally:
    shutil.rmtree(root, ignore_errors=True)
if errors:
    print("FAIL: sqltable_archive names alias:")
    for e in errors: print("  -", e)
    sys.exit(1)
print("ok")

"""C03: dir_archive(protocol='json') accepts a tuple key (what klepto's default
keymap produces), but afterwards every whole-archive operation raises TypeError."""
import os, shutil, sys, tempfile
from klepto._archives import dir_archive

root = tempfile.mkdtemp()
errors = []
try:
    d = dir_archive(os.path.join(root, 'memo'), protocol='json')
    model = {}
    for k, v in [('a', 1), ((1, 2), 3)]:
        d[k] = v           # succeeds silently for both keys
        model[k] = v
    if d[(1, 2)] != 3:
        errors.append("d[(1,2)] != 3")
    checks = [
        ('keys()', lambda: set(d.keys()), lambda: set(model.keys())),
        ('items()', lambda: dict(d.items()), lambda: dict(model.items())),
        ('values()', lambda: sorted(d.values()), lambda: sorted(model.values())),
        ('iter', lambda: set(iter(d)), lambda: set(iter(model))),
        ('repr', lambda: bool(repr(d)), lambda: True),
        ('== self', lambda: d == d, lambda: True),
        ('popitem', lambda: d.popitem() in list(model.items()), lambda: True),
    ]
    for name, fa, fm in checks:
        try:
            got = fa()
        except Exception as e:
            errors.append("%s raised %s: %s (a dict gives %r)" % (name, type(e).__name__, e, fm()))
            continue
        if got != fm():
            errors.append("%s -> %r, a dict gives %r" % (name, got, fm()))
    # a fresh handle is broken too
    try:
        dict(dir_archive(os.path.join(root, 'memo'), protocol='json').items())
    except Exception as e:
        errors.append("fresh handle items() raised %s: %s" % (type(e).__name__, e))
finally:
    shutil.rmtree(root, ignore_errors=True)
if errors:
    print("FAIL: dir_archive(protocol='json') holding a tuple key is unusable:")
    for e in errors: print("  -", e)
    sys.exit(1)
print("ok")

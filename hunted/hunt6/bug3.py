"""C03/C04: file_archive(serialized=False) silently loses everything when the
file's base name is not importable as a *new* module: the name of a module that
is already imported ('json.py', 'copy.py'), or 'my-memo.py', 'memo.v2.py'."""
import os, shutil, sys, tempfile
from klepto._archives import file_archive

root = tempfile.mkdtemp()
errors = []
try:
    for fname in ['json', 'copy.py', 'my-memo', 'memo.v2', 'class']:
        f = file_archive(os.path.join(root, fname), serialized=False)
        model = {}
        f['x'] = 1; model['x'] = 1
        f['y'] = 2; model['y'] = 2
        got = dict(f.items())
        if got != model:
            errors.append("file %r: after f['x']=1; f['y']=2 -> items() %r, len %d, 'y' in f %r (a dict gives %r)"
                          % (os.path.basename(f.__state__['id']), got, len(f), 'y' in f, model))
        got2 = dict(file_archive(os.path.join(root, fname), serialized=False).items())
        if got2 != model:
            errors.append("file %r: a fresh handle sees %r" % (os.path.basename(f.__state__['id']), got2))
        with open(f.__state__['id']) as fh: text = fh.read().strip()
        if "'x'" not in text:
            errors.append("file %r: the file itself now holds only %r (earlier entry overwritten)"
                          % (os.path.basename(f.__state__['id']), text))
finally:
    shutil.rmtree(root, ignore_errors=True)
if errors:
    print("FAIL: file_archive(serialized=False) loses its contents:")
    for e in errors: print("  -", e)
    sys.exit(1)
print("ok")

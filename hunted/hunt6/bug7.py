"""C04: file_archive keeps a relative file name as given (dir_archive makes it
absolute): after os.chdir the SAME handle, its copy() and its unpickled twin no
longer address the store that was written (they see {} and write a new file)."""
import os, pickle, shutil, sys, tempfile
from klepto._archives import file_archive, dir_archive

root = tempfile.mkdtemp(); other = tempfile.mkdtemp()
home = os.getcwd()
errors = []
try:
    os.chdir(root)
    f = file_archive('memo.pkl')            # the documented default name is relative, too
    d = dir_archive('memo')                 # control: same usage, directory backend
    f['a'] = 1; d['a'] = 1
    blob = pickle.dumps(f)
    os.chdir(other)
    if dict(d.items()) != {'a': 1}:
        errors.append("dir_archive (control) sees %r after chdir" % dict(d.items()))
    got = dict(f.items())
    if got != {'a': 1}:
        errors.append("same file_archive handle after os.chdir sees %r instead of {'a': 1}" % got)
    got = dict(pickle.loads(blob).items())
    if got != {'a': 1}:
        errors.append("unpickled file_archive sees %r instead of {'a': 1}" % got)
    f['b'] = 2
    fresh = dict(file_archive(os.path.join(root, 'memo.pkl')).items())
    if fresh != {'a': 1, 'b': 2}:
        errors.append("after f['b']=2 the store %s holds %r (expected {'a': 1, 'b': 2}); "
                      "a stray file appeared in the new cwd: %r"
                      % (os.path.join(root, 'memo.pkl'), fresh, sorted(os.listdir(other))))
finally:
    os.chdir(home)
    shutil.rmtree(root, ignore_errors=True); shutil.rmtree(other, ignore_errors=True)
if errors:
    print("FAIL: file_archive with a relative name does not keep addressing its store:")
    for e in errors: print("  -", e)
    sys.exit(1)
print("ok")

"""C03: popkeys(keys) with a one-shot iterable (generator, iterator, map) returns
[] and removes nothing on cache / dict_archive / dir_archive / sqltable_archive
(file_archive, and the form with a default, do the right thing);
cache.popkeys(cache.keys()) removes one entry and then raises RuntimeError."""
import os, shutil, sys, tempfile
from klepto._archives import cache, dict_archive, dir_archive, file_archive, sqltable_archive

root = tempfile.mkdtemp()
errors = []
try:
    makers = [
        ('cache', lambda: cache()),
        ('dict_archive', lambda: dict_archive()),
        ('dir_archive', lambda: dir_archive(os.path.join(root, 'd'))),
        ('file_archive', lambda: file_archive(os.path.join(root, 'f.pkl'))),
        ('sqltable_archive', lambda: sqltable_archive()),
    ]
    for name, mk in makers:
        a = mk(); a.update({'a': 1, 'b': 2, 'c': 3})
        m = {'a': 1, 'b': 2, 'c': 3}
        want = [m.pop(k) for k in iter(['a', 'b'])]
        got = a.popkeys(iter(['a', 'b']))
        left = dict(a.items())
        if got != want or left != m:
            errors.append("%s.popkeys(iter(['a','b'])) -> %r, contents left %r (expected %r and %r)"
                          % (name, got, left, want, m))
    c = cache(); c.update({'a': 1, 'b': 2})
    try:
        got = c.popkeys(c.keys())
        if sorted(got) != [1, 2] or dict(c): errors.append("cache.popkeys(cache.keys()) -> %r, left %r" % (got, dict(c)))
    except RuntimeError as e:
        if dict(c) != {'a': 1, 'b': 2}:
            errors.append("cache.popkeys(cache.keys()) raised RuntimeError(%s) AFTER changing the contents to %r" % (e, dict(c)))
finally:
    shutil.rmtree(root, ignore_errors=True)
if errors:
    print("FAIL: popkeys:")
    for e in errors: print("  -", e)
    sys.exit(1)
print("ok")

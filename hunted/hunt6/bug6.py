"""C03: sqlite-fallback sqltable_archive accepts the key None, lists it in
keys()/items()/len(), but 'in', [], get, pop and del cannot find it."""
import sys
from klepto._archives import sqltable_archive

errors = []
a = sqltable_archive()      # in-memory database
m = {}
a[None] = 5; m[None] = 5
a['x'] = 1; m['x'] = 1
try:
    if dict(a.items()) != m: errors.append("items() -> %r" % dict(a.items()))
except KeyError as e: errors.append("items() raises KeyError(%s) although keys() is %r and __asdict__() is %r" % (e, list(a.keys()), a.__asdict__()))
if len(a) != len(m): errors.append("len -> %d" % len(a))
if (None in a) != (None in m): errors.append("keys() is %r but (None in a) is %r" % (list(a.keys()), None in a))
if a.get(None) != m.get(None): errors.append("a.get(None) -> %r, a dict gives %r" % (a.get(None), m.get(None)))
try:
    if a[None] != 5: errors.append("a[None] != 5")
except KeyError: errors.append("a[None] raises KeyError although None is in keys()")
if a.setdefault(None, 9) != m.setdefault(None, 9): errors.append("setdefault(None, 9) -> 9 (overwrites), a dict gives 5")
try: a.pop(None); m.pop(None)
except KeyError: errors.append("a.pop(None) raises KeyError; the entry cannot be removed (del fails too); len is %d" % len(a))
a._conn.close()
if errors:
    print("FAIL: sqltable_archive with key None:")
    for e in errors: print("  -", e)
    sys.exit(1)
print("ok")

"""C01: the default (flat, no-sentinel) keymap gives f('a', 1) and f(a=1) the same key
for a function taking *args and **kwds, so the second call returns the first call's result."""
import sys
from klepto import lru_cache, inf_cache
from klepto.keymaps import keymap

def plain(*args, **kwds):
    return (args, tuple(sorted(kwds.items())))

fails = []
for name, dec in [('lru_cache() [default hashmap(flat=True)]', lru_cache()),
                  ('inf_cache(keymap=keymap()) [raw flat keymap]', inf_cache(keymap=keymap()))]:
    f = dec(plain)
    for call in [(('a', 1), {}), ((), {'a': 1})]:
        got = f(*call[0], **call[1])
        want = plain(*call[0], **call[1])
        if got != want:
            fails.append("%s: f(*%r, **%r) returned %r, the function returns %r" % (name, call[0], call[1], got, want))
    # the two calls are distinct inputs of the function, yet they share a key
    if f.key('a', 1) == f.key(a=1):
        fails.append("%s: key('a', 1) == key(a=1) == %r" % (name, f.key(a=1)))
if fails:
    print("DEFECT (C01):"); [print("  " + m) for m in fails]; sys.exit(1)
print("ok")

"""C02: with file_archive(protocol='json') the archive never answers for the default keymap:
json turns the integer keys into strings, archive[key] raises KeyError for the int key,
and every evicted result is computed again (also by a second decorator on the same file)."""
import sys, os, shutil, tempfile
from klepto import lru_cache, inf_cache
from klepto.archives import file_archive

tmp = tempfile.mkdtemp()
fails = []
try:
    name = os.path.join(tmp, 'memo.json')
    evals = []
    def double(x):
        evals.append(x); return 2 * x
    f = lru_cache(maxsize=1, cache=file_archive(name, cached=True, protocol='json'))(double)
    f(1); f(2); f(1); f(2)
    if evals != [1, 2]:
        fails.append("evaluations %r for the calls f(1), f(2), f(1), f(2) with an archive attached (info: %s)" % (evals, f.info()))
    # a later 'session': a new decorator on the same file
    f.dump(); del evals[:]
    g = inf_cache(cache=file_archive(name, cached=True, protocol='json'))(double)
    g(1); g(2)
    if evals:
        fails.append("a second decorator on the same archive re-evaluated %r" % evals)
    a = g.__cache__().archive
    if g.key(1) not in a:
        fails.append("key %r was dumped, but 'key in archive' is False; archive keys: %r" % (g.key(1), sorted(a.keys())))
finally:
    shutil.rmtree(tmp, ignore_errors=True)
if fails:
    print("DEFECT (C02):"); [print("  " + m) for m in fails]; sys.exit(1)
print("ok")

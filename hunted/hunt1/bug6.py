"""C07/C02: dir_archive silently drops an entry whose key makes a folder name longer than
the file system allows (OSError is swallowed in _store), so an evicted result is in
neither memory nor the archive and is computed again."""
import sys, os, shutil, tempfile
from klepto import lru_cache
from klepto.keymaps import stringmap
from klepto.archives import dir_archive

tmp = tempfile.mkdtemp()
fails = []
try:
    evals = []
    def size(text):
        evals.append(text[:1]); return len(text)
    f = lru_cache(maxsize=1, cache=dir_archive(os.path.join(tmp, 'memo'), cached=True), keymap=stringmap())(size)
    A, B = 'a' * 300, 'b' * 300
    f(A); f(B)                       # A is evicted; it has to be in the archive now
    c = f.__cache__()
    ka = f.key(A)
    if ka not in c and ka not in c.archive:
        fails.append("after eviction the result for 'a'*300 is neither in memory nor in the archive (archive has %d entries)" % len(c.archive))
    f(A)
    if evals.count('a') != 1:
        fails.append("'a'*300 was evaluated %d times although an archive is attached" % evals.count('a'))
finally:
    shutil.rmtree(tmp, ignore_errors=True)
if fails:
    print("DEFECT (C07/C02):"); [print("  " + m) for m in fails]; sys.exit(1)
print("ok")

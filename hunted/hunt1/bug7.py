"""C07/C02: file_archive.__asdict__ returns {} whenever the file cannot be read back, and the
next store rewrites the file from that empty dict: one stored value that does not read back
(float('inf') in a serialized=False archive; an object whose unpickling fails in a pickled
archive) makes ordinary cache traffic erase every archived result."""
import sys, os, shutil, tempfile
from klepto import lru_cache
from klepto.keymaps import stringmap
from klepto.archives import file_archive

class Pair(Exception):               # pickles fine, cannot be unpickled (classic Exception.__init__ arity)
    def __init__(self, a, b):
        Exception.__init__(self, a + b); self.a, self.b = a, b

tmp = tempfile.mkdtemp()
fails = []
try:
    for label, arch, odd in (
        ("file_archive(serialized=False), value float('inf')",
         file_archive(os.path.join(tmp, 'memo.py'), cached=True, serialized=False), float('inf')),
        ("file_archive() [pickled], value that fails to unpickle",
         file_archive(os.path.join(tmp, 'memo.pkl'), cached=True), Pair(1, 2)),
    ):
        evals = []
        def cost(x, odd=odd):
            evals.append(x); return odd if x == 0 else 1.0 / x
        f = lru_cache(maxsize=1, cache=arch, keymap=stringmap(), ignore='odd')(cost)
        f(1); f(2); f(3)                      # 1 and 2 are evicted into the archive
        a = f.__cache__().archive
        k1, k2 = f.key(1), f.key(2)
        before = (k1 in a, k2 in a)
        f(0); f(4); f(5)                      # the odd value is evicted into the archive, then 4
        after = (k1 in a, k2 in a)
        if before == (True, True) and after != (True, True):
            fails.append("%s: results of f(1), f(2) were archived, and are gone after later evictions (archive keys: %r)" % (label, sorted(a.keys())))
        n = len(evals); f(1)
        if len(evals) != n:
            fails.append("%s: f(1) was evaluated again although it had reached the archive" % label)
finally:
    shutil.rmtree(tmp, ignore_errors=True)
if fails:
    print("DEFECT (C07/C02):"); [print("  " + m) for m in fails]; sys.exit(1)
print("ok")

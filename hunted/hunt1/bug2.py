"""C01: stringmap() maps f(1) and f('1') to the same key for a function taking *args
(the single positional is unwrapped as a 'fasttype' and then passed through str())."""
import sys
from klepto import lru_cache
from klepto.keymaps import stringmap

def plain(*args):
    return [type(a).__name__ for a in args]

f = lru_cache(maxsize=10, keymap=stringmap())(plain)
fails = []
for arg in (1, '1', None, 'None'):
    got, want = f(arg), plain(arg)
    if got != want:
        fails.append("f(%r) returned %r, the function returns %r (key %r)" % (arg, got, want, f.key(arg)))
if fails:
    print("DEFECT (C01):"); [print("  " + m) for m in fails]; sys.exit(1)
print("ok")

"""C01: a cached function that has a parameter named 'self' (every method decorated inside
a class body, unless 'self' is ignored) cannot be called: the keymap is invoked as
keymap(**{'self': ...}) and raises TypeError instead of returning the function's value."""
import sys
import klepto, klepto.safe

fails = []
for modname, mod in (('klepto', klepto), ('klepto.safe', klepto.safe)):
    for alg in ('no_cache', 'inf_cache', 'lru_cache', 'lfu_cache', 'mru_cache', 'rr_cache'):
        evals = []
        class Adder(object):
            def __init__(self, n): self.n = n
            @getattr(mod, alg)()
            def add(self, x):
                evals.append(x)
                return self.n + x
        a = Adder(10)
        try:
            r = [a.add(1), a.add(1)]
        except TypeError as e:
            fails.append("%s.%s: method call raised TypeError: %s" % (modname, alg, e))
            continue
        if r != [11, 11]:
            fails.append("%s.%s: wrong results %r" % (modname, alg, r))
        elif alg != 'no_cache' and evals != [1]:
            # klepto.safe swallows the error and silently never caches (C02)
            fails.append("%s.%s: the method was evaluated %d times for one distinct call (never cached)" % (modname, alg, len(evals)))
if fails:
    print("DEFECT (C01/C02):"); [print("  " + m) for m in fails]; sys.exit(1)
print("ok")

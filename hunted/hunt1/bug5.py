"""C01: dir_archive names an entry's folder str(key).replace('-','_'), so distinct keys
share one folder ("'-1'" vs "'_1'"; 1 vs '1'); a result loaded from the archive is
the result of a different call."""
import sys, os, shutil, tempfile
from klepto import inf_cache, lru_cache
from klepto.keymaps import keymap, stringmap
from klepto.archives import dir_archive

tmp = tempfile.mkdtemp()
fails = []
try:
    # (a) '-' and '_' in an argument, string keys
    def show(x): return 'value for %r' % (x,)
    f = inf_cache(cache=dir_archive(os.path.join(tmp, 'a'), cached=True), keymap=stringmap())(show)
    f('-1'); f.dump(); f.clear()          # the result for '-1' is now in the archive only
    got = f('_1')
    if got != show('_1'):
        fails.append("stringmap + dir_archive: f('_1') returned %r, the function returns %r" % (got, show('_1')))
    # (b) 1 and '1', raw keys, reached through plain LRU eviction
    def kind(*args): return 'value for %r' % (args,)
    g = lru_cache(maxsize=1, cache=dir_archive(os.path.join(tmp, 'b'), cached=True), keymap=keymap())(kind)
    g(1); g(2)                            # 1 is evicted into the archive
    got = g('1')
    if got != kind('1'):
        fails.append("keymap + dir_archive: g('1') returned %r, the function returns %r" % (got, kind('1')))
    # (c) C07: dumping one key overwrites the archived value of the other
    a = g.__cache__().archive
    g(3)                                  # '1' is evicted now
    if a.get(1) != kind(1):
        fails.append("archive[1] is now %r (was %r): cache traffic changed an archived entry" % (a.get(1), kind(1)))
finally:
    shutil.rmtree(tmp, ignore_errors=True)
if fails:
    print("DEFECT (C01/C07):"); [print("  " + m) for m in fails]; sys.exit(1)
print("ok")

"""C01: a keyword argument named 'func' or 'ignored' collides with the positional
parameters of klepto._inspect._keygen, so the cached call raises TypeError."""
import sys
from klepto import lru_cache, inf_cache

def apply(x, func=abs):
    return func(x)
def scan(text, ignored=()):
    return [c for c in text if c not in ignored]
def anykw(**kw):
    return sorted(kw)

fails = []
for dec in (lru_cache(maxsize=4), inf_cache()):
    for fn, args, kwds in ((apply, (-3,), {'func': float}),
                           (scan, ('abc',), {'ignored': ('b',)}),
                           (anykw, (), {'func': 1})):
        want = fn(*args, **kwds)
        try:
            got = dec(fn)(*args, **kwds)
        except TypeError as e:
            fails.append("%s(*%r, **%r): cached call raised TypeError: %s" % (fn.__name__, args, list(kwds), e))
            continue
        if got != want:
            fails.append("%s: got %r, want %r" % (fn.__name__, got, want))
if fails:
    print("DEFECT (C01):"); [print("  " + m) for m in fails]; sys.exit(1)
print("ok")

"""dir_archive(protocol='json'): a tuple key (klepto's default keymap()) is
stored without error, after which keys()/items()/popitem/load fail with
TypeError (the key file is read back as an unhashable list)."""
import os, sys, shutil, tempfile
from klepto._archives import dir_archive
from klepto.keymaps import keymap
t = tempfile.mkdtemp()
errors = []
try:
    a = dir_archive(os.path.join(t, 'd'), protocol='json'); model = {}
    a['s'] = 0; model['s'] = 0
    k = keymap()(1, 2)                      # (1, 2)
    try:
        a[k] = 7; model[k] = 7               # accepted; a[k] == 7 afterwards
    except Exception:                        # a clean refusal would be fine
        pass
    for name, op in [('keys', lambda: sorted(map(repr, a.keys()))), ('items', lambda: dict(a.items())),
                     ('len', lambda: len(a))]:
        want = {'keys': sorted(map(repr, model)), 'items': model, 'len': len(model)}[name]
        try:
            got = op()
            if got != want: errors.append("%s == %r, expected %r" % (name, got, want))
        except Exception as e:
            errors.append("%s raises %s(%s) after a[(1, 2)]=7 was accepted" % (name, type(e).__name__, e))
finally:
    shutil.rmtree(t, ignore_errors=True)
if errors:
    print("FAIL (C03): " + "\n      ".join(errors)); sys.exit(1)
print("ok")

"""update() of the persistent archives needs a positional argument: the legal
dict calls a.update(k=v) and a.update() raise TypeError."""
import os, sys, shutil, tempfile
from klepto._archives import dir_archive, file_archive, sqltable_archive
t = tempfile.mkdtemp()
errors = []
try:
    for name, a in [('dir_archive', dir_archive(os.path.join(t, 'd'))),
                    ('file_archive', file_archive(os.path.join(t, 'f.pkl'))),
                    ('sqltable_archive', sqltable_archive('sqlite:///' + os.path.join(t, 's.db')))]:
        model = {}
        model.update(a=1); model.update()
        try:
            a.update(a=1); a.update()
            if dict(a.items()) != model: errors.append("%s: contents %r, expected %r" % (name, dict(a.items()), model))
        except TypeError as e:
            errors.append("%s: %s" % (name, e))
finally:
    shutil.rmtree(t, ignore_errors=True)
if errors:
    print("FAIL (C03): " + "\n      ".join(errors)); sys.exit(1)
print("ok")

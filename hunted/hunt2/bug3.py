"""dir_archive: a str key containing '/' (e.g. the stringmap key of a call
f('a/b')) becomes a nested directory: keys() reports a truncated key, items()
raises, del leaves a ghost entry, and storing the prefix key destroys it."""
import os, sys, shutil, tempfile
from klepto._archives import dir_archive
from klepto.keymaps import stringmap
t = tempfile.mkdtemp()
errors = []
try:
    k = stringmap()('data/run1')          # "('data/run1',)"  -- a key made by klepto's own keymap
    a = dir_archive(os.path.join(t, 'd')); model = {}
    a[k] = 1; model[k] = 1
    ks = list(a.keys())
    if ks != list(model): errors.append("keys() == %r, expected %r" % (ks, list(model)))
    try:
        got = dict(a.items())
        if got != model: errors.append("items() == %r, expected %r" % (got, model))
    except Exception as e:
        errors.append("dict(a.items()) raises %s(%s)" % (type(e).__name__, e))
    del a[k]; del model[k]
    if len(a) != 0 or list(a.keys()) != []:
        errors.append("after del: len == %d, keys == %r, expected empty" % (len(a), list(a.keys())))
    # prefix key destroys the longer key
    b = dir_archive(os.path.join(t, 'e')); model = {}
    b['x/y'] = 1; model['x/y'] = 1
    b['x'] = 2;   model['x'] = 2
    got = dict((key, b.get(key, 'MISSING')) for key in model)
    if got != model: errors.append("after b['x/y']=1; b['x']=2: %r, expected %r" % (got, model))
finally:
    shutil.rmtree(t, ignore_errors=True)
if errors:
    print("FAIL (C03): " + "\n      ".join(errors)); sys.exit(1)
print("ok")

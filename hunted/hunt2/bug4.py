"""dir_archive: a key whose directory name is longer than the file system
allows (a 300 character stringmap key) is dropped silently by __setitem__."""
import os, sys, shutil, tempfile
from klepto._archives import dir_archive
from klepto.keymaps import stringmap
t = tempfile.mkdtemp()
errors = []
try:
    k = stringmap()('x' * 300)
    a = dir_archive(os.path.join(t, 'd')); model = {}
    a['base'] = 0; model['base'] = 0
    try:
        a[k] = 1; model[k] = 1            # returns normally
    except Exception as e:               # an error leaving the contents unchanged would be fine
        pass
    if (k in a) != (k in model): errors.append("a[k]=1 returned normally, but k in a is %r" % (k in a))
    if len(a) != len(model): errors.append("len(a) == %d, expected %d" % (len(a), len(model)))
    got = dict(a.items())
    if got != model: errors.append("items() has keys %r, expected also the long key" % (list(got),))
    left = [n for n in os.listdir(os.path.join(t, 'd')) if not n.startswith('K_base')]
    if left and k not in a: errors.append("stray directory left in the archive root: %r" % (left,))
finally:
    shutil.rmtree(t, ignore_errors=True)
if errors:
    print("FAIL (C03): " + "\n      ".join(errors)); sys.exit(1)
print("ok")

"""file_archive(serialized=False).copy(name): when name has no '.py' suffix the
file is copied to 'name' but the returned archive is bound to 'name.py', a new
empty file -- the copy is not equal to the original."""
import os, sys, shutil, tempfile
from klepto._archives import file_archive
t = tempfile.mkdtemp()
errors = []
try:
    a = file_archive(os.path.join(t, 'orig.py'), serialized=False)
    a['a'] = 1; a['b'] = 2
    c = a.copy(os.path.join(t, 'backup'))
    if dict(c.items()) != dict(a.items()):
        errors.append("copy holds %r, original %r; files: %r" % (dict(c.items()), dict(a.items()), sorted(os.listdir(t))))
    if not (c == a): errors.append("copy != original")
finally:
    shutil.rmtree(t, ignore_errors=True)
if errors:
    print("FAIL (C03): " + "\n      ".join(errors)); sys.exit(1)
print("ok")

"""file_archive(serialized=False): one value whose repr() is not a Python
expression (float('inf'), float('nan')) makes the whole archive unreadable:
every earlier entry silently disappears and the next write overwrites them."""
import os, sys, shutil, tempfile
from klepto._archives import file_archive
t = tempfile.mkdtemp()
try:
    path = os.path.join(t, 'memo.py')
    a = file_archive(path, serialized=False)
    model = {}
    a['a'] = 1;              model['a'] = 1
    a['b'] = 'two';          model['b'] = 'two'
    a['c'] = float('inf');   model['c'] = float('inf')   # accepted without error
    errors = []
    got = dict(a.items())
    if got != model:
        errors.append("same handle after a['c']=inf: %r, expected %r" % (got, model))
    fresh = dict(file_archive(path, serialized=False).items())
    if fresh != model:
        errors.append("fresh handle sees %r, expected %r" % (fresh, model))
    a['d'] = 4;              model['d'] = 4
    got = dict(a.items())
    if got != model:
        errors.append("after one more store: %r, expected %r (earlier entries destroyed)" % (got, model))
finally:
    shutil.rmtree(t, ignore_errors=True)
if errors:
    print("FAIL (C04/C03): " + "\n      ".join(errors)); sys.exit(1)
print("ok")

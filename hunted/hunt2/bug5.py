"""dir_archive(serialized=False): only keys that are python identifiers can be
read back.  Tuple keys (klepto's default keymap()), stringmap keys, floats and
bytes are stored without error and 'in' says True, but __getitem__ raises
KeyError and iteration raises."""
import os, sys, shutil, tempfile
from klepto._archives import dir_archive
from klepto.keymaps import keymap, stringmap
t = tempfile.mkdtemp()
errors = []
try:
    for i, k in enumerate([keymap()(1, 2), stringmap()(1, 2), 1.5, 'a b']):
        a = dir_archive(os.path.join(t, 'd%d' % i), serialized=False); model = {}
        try:
            a[k] = 7; model[k] = 7
        except Exception as e:
            errors.append("key %r: store raises %s (contents now %r)" % (k, type(e).__name__, list(a.keys())))
            continue
        try:
            if a[k] != 7: errors.append("key %r: a[k] == %r" % (k, a[k]))
        except KeyError:
            errors.append("key %r: stored ok, (k in a) is %r, but a[k] raises KeyError" % (k, k in a))
        try:
            got = dict(a.items())
            if got != model: errors.append("key %r: items() == %r" % (k, got))
        except Exception as e:
            errors.append("key %r: dict(a.items()) raises %s(%s)" % (k, type(e).__name__, e))
finally:
    shutil.rmtree(t, ignore_errors=True)
if errors:
    print("FAIL (C03): " + "\n      ".join(errors)); sys.exit(1)
print("ok")

"""file_archive(protocol='json'): non-str keys (the ints made by klepto's
default hashmap(), floats, None) come back as strings, so a[1] raises KeyError
right after a[1]=2 and a function re-decorated on the archive is never served
from it."""
import os, sys, shutil, tempfile
from klepto._archives import file_archive
from klepto import inf_cache
from klepto.keymaps import hashmap
from klepto import archives
t = tempfile.mkdtemp()
errors = []
try:
    path = os.path.join(t, 'memo.json')
    a = file_archive(path, protocol='json'); model = {}
    a[1] = 'one'; model[1] = 'one'           # accepted
    if (1 in a) != (1 in model): errors.append("after a[1]='one': (1 in a) is %r" % (1 in a))
    try: a[1]
    except KeyError: errors.append("after a[1]='one': a[1] raises KeyError")
    fresh = dict(file_archive(path, protocol='json').items())
    if fresh != model: errors.append("fresh handle sees %r, expected %r (key type changed)" % (fresh, model))
    a[1] = 'uno'; a['1'] = 'str'; model[1] = 'uno'; model['1'] = 'str'
    if len(a) != len(model): errors.append("keys 1 and '1' alias: len == %d, expected 2" % len(a))
    # decorated function, klepto's own integer keymap
    calls = []
    def f(x): calls.append(x); return x * 2
    p2 = os.path.join(t, 'f.json')
    g = inf_cache(cache=archives.file_archive(p2, protocol='json'), keymap=hashmap())(f)
    g(3); g.dump(); del calls[:]
    h = inf_cache(cache=archives.file_archive(p2, protocol='json'), keymap=hashmap())(f)
    h(3)
    if calls: errors.append("re-decorated function recomputed f(3); info=%s" % (h.info(),))
finally:
    shutil.rmtree(t, ignore_errors=True)
if errors:
    print("FAIL (C04): " + "\n      ".join(errors)); sys.exit(1)
print("ok")

"""serialized=False archives write their source text latin-1 encoded, python
reads source as utf-8: a str value with a non-ASCII latin-1 character ('é')
is accepted, but cannot be read back (dir_archive), or wipes the archive
(file_archive)."""
import os, sys, shutil, tempfile
from klepto._archives import file_archive, dir_archive
t = tempfile.mkdtemp()
errors = []
try:
    for kind in ('dir', 'file'):
        if kind == 'dir':  a = dir_archive(os.path.join(t, 'd'), serialized=False)
        else:              a = file_archive(os.path.join(t, 'f.py'), serialized=False)
        model = {}
        a['a'] = 1;        model['a'] = 1
        a['b'] = 'café';   model['b'] = 'café'      # no error raised here
        try:
            got = a['b']
            if got != 'café': errors.append("%s: a['b'] == %r" % (kind, got))
        except KeyError as e:
            errors.append("%s: a['b'] raises KeyError(%s) right after a['b']='café' succeeded" % (kind, e))
        try:
            got = dict(a.items())
            if got != model: errors.append("%s: items() == %r, expected %r" % (kind, got, model))
        except Exception as e:
            errors.append("%s: dict(a.items()) raises %s(%s); len(a)=%d" % (kind, type(e).__name__, e, len(a)))
finally:
    shutil.rmtree(t, ignore_errors=True)
if errors:
    print("FAIL (C03): " + "\n      ".join(errors)); sys.exit(1)
print("ok")

"""C06: entries that enter the memory cache through load() (or a pre-populated
cache=) are invisible to the eviction bookkeeping.  A cache that is exactly
full after load() (within its bound) then evicts, on the next miss, the entry
that was JUST computed (the most recently / most frequently used one) and keeps
the never-used loaded entries forever."""
import sys
from klepto import lru_cache, lfu_cache, safe
from klepto.archives import dict_archive

errors = []
for name, mk in (('lru_cache', lru_cache), ('lfu_cache', lfu_cache),
                 ('safe.lru_cache', safe.lru_cache), ('safe.lfu_cache', safe.lfu_cache)):
    store = dict_archive('store', cached=False)
    # session 1: compute two results, they reach the archive
    f1 = mk(maxsize=2, cache=dict_archive('m1', cached=True))(lambda x: x * 10)
    f1.archive(store); f1(1); f1(2); f1.dump()
    # session 2: fresh decorator on the same archive, bulk load (2 entries == maxsize)
    evals = []
    def fn(x):
        evals.append(x); return x * 10
    f = mk(maxsize=2, cache=dict_archive('m2', cached=True))(fn)
    f.archive(store); f.load()
    C = f.__cache__()
    assert len(C) == 2 and f.info().size == 2
    k1, k2, k3 = f.key(1), f.key(2), f.key(3)
    f(3)                                   # miss: overflow, exactly one... victim(s) by policy
    resident = set(C.keys())
    if k3 not in resident:
        errors.append('%s(maxsize=2): after load() of {1,2} and a call f(3), the victim is the entry '
                      'of f(3) itself (used 1x, just now) while the never-used loaded entries %r stay'
                      % (name, sorted(resident)))
    f(3)
    if f.info().hit != 1:
        errors.append('%s: the immediately repeated call f(3) is not a memory hit: %r' % (name, f.info()))
if errors:
    print('DEFECT (eviction ignores entries that came in through load()):')
    for e in errors: print('  -', e)
    sys.exit(1)
print('ok')

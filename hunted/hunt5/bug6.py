"""C16/C01: an INVALID call (an argument given both positionally and by keyword)
makes the undecorated function raise TypeError, but through a cache the
duplicate keyword is silently overwritten in the key and the call is answered
with the cached result of a different, valid call."""
import sys
from klepto import lru_cache, inf_cache, safe

def area(w, h=2):
    return w * h

errors = []
for name, deco in (('lru_cache', lru_cache(maxsize=10)), ('inf_cache', inf_cache()),
                   ('safe.lru_cache', safe.lru_cache(maxsize=10))):
    f = deco(area)
    try: area(3, w=100)
    except TypeError: pass
    else: raise SystemExit('test is wrong')
    # on an empty cache the call is evaluated and raises, as it should
    try:
        f(3, w=100); errors.append('%s: invalid call on empty cache did not raise' % name)
    except TypeError: pass
    f(3)                                   # a valid call, now cached
    before = f.info()
    try:
        r = f(3, w=100)
        errors.append('%s: area(3, w=100) raises TypeError, but the cached f(3, w=100) returned %r '
                      '(key %r == key of f(3) %r); info %r -> %r'
                      % (name, r, f.key(3, w=100), f.key(3), tuple(before), tuple(f.info())))
    except TypeError: pass
if errors:
    print('DEFECT (a call the function rejects is answered from the cache):')
    for e in errors: print('  -', e)
    sys.exit(1)
print('ok')

"""C15/C18: stacking two klepto caches -- the management interface of the OUTER
wrapper (info/clear/lookup/key/__cache__/load/dump/archive...) is silently
replaced by the INNER wrapper's, because update_wrapper() copies the wrapped
function's __dict__ over the attributes that were just installed."""
import sys
from klepto import lru_cache, inf_cache
from klepto.keymaps import stringmap

evals = []
def slow(x):
    evals.append(x)
    return x * 2

inner = inf_cache(keymap=stringmap(flat=False))(slow)   # e.g. a big/persistent cache
outer = lru_cache(maxsize=2)(inner)                     # a small fast cache in front

errors = []
for x in (1, 1, 2):          # 3 completed calls: outer sees miss, hit, miss
    if outer(x) != x * 2: errors.append('wrong value for %r' % x)
i = outer.info()
if i.hit + i.miss + i.load != 3:
    errors.append('outer.info() accounts for %d calls, 3 were made: %r' % (i.hit+i.miss+i.load, i))
if (i.hit, i.miss, i.load) != (1, 2, 0):
    errors.append('outer.info() is %r, expected hit=1 miss=2 load=0' % (i,))
if i.maxsize != 2:
    errors.append('outer.info().maxsize is %r, configured bound is 2' % (i.maxsize,))
if outer.__cache__() is inner.__cache__():
    errors.append('outer.__cache__() is the INNER cache object, not the cache the outer wrapper uses')
if outer.key(1) not in outer.__cache__() or outer.key(1) == inner.key(1):
    errors.append('outer.key(1) is %r: the inner keymap\'s key, not the key the outer (hashmap) cache stores' % (outer.key(1),))
outer.clear()                # must empty the outer memory cache and zero its counters
outer(1)                     # so this is one completed call, not answered from outer memory
j = outer.info()
if j.hit + j.miss + j.load != 1 or j.hit != 0:
    errors.append('after clear()+1 call, outer.info() is %r (expected exactly one miss)' % (j,))
if errors:
    print('DEFECT (stacked klepto decorators):')
    for e in errors: print('  -', e)
    sys.exit(1)
print('ok')

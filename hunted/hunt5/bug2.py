"""C01: deep=True rounding rebuilds a non-dict mapping argument from its KEYS
only (type(j)(iter(j))), so two calls whose mappings differ in their values
get the same cache key and the second one is answered with the first result."""
import sys
from collections import ChainMap, UserDict
from klepto import inf_cache, safe
from klepto.keymaps import picklemap, stringmap

def total(m):
    return sum(m.values())

errors = []
for name, deco in (('inf_cache+picklemap', inf_cache(keymap=picklemap(flat=False), tol=1, deep=True)),
                   ('inf_cache+stringmap', inf_cache(keymap=stringmap(flat=False), tol=1, deep=True)),
                   ('safe.lru_cache default keymap', safe.lru_cache(maxsize=10, tol=1, deep=True))):
    f = deco(total)
    for a, b in ((ChainMap({'a': 1.0}), ChainMap({'a': 2.0})),
                 (UserDict({'ab': 10}), UserDict({'ab': 20}))):
        ra, rb = f(a), f(b)
        if ra != total(a) or rb != total(b):
            errors.append('%s: f(%r)=%r, f(%r)=%r but the function gives %r and %r; keys %r / %r'
                          % (name, a, ra, b, rb, total(a), total(b), f.key(a), f.key(b)))
if errors:
    print('DEFECT (deep rounding drops the values of mappings that are not dict):')
    for e in errors: print('  -', e)
    sys.exit(1)
print('ok')

"""C01/C02: flat=False with the raw keymap or the default (python-hash) hashmap
builds the key (args, {kwds}) -- a tuple holding a dict, which is unhashable.
The standard decorators then raise TypeError on EVERY call (even f(1)), and the
'safe' decorators silently never cache anything."""
import sys
from klepto import lru_cache, inf_cache, safe
from klepto.keymaps import keymap, hashmap

errors = []
for mname, mk in (('keymap(flat=False)', lambda: keymap(flat=False)),
                  ('hashmap(flat=False)', lambda: hashmap(flat=False)),
                  ('hashmap(flat=False, typed=True)', lambda: hashmap(flat=False, typed=True))):
    for dname, deco in (('lru_cache', lambda m: lru_cache(maxsize=10, keymap=m)),
                        ('inf_cache', lambda m: inf_cache(keymap=m))):
        f = deco(mk())(lambda x, y=2: x + y)
        try:
            r = f(1)
            if r != 3: errors.append('%s %s: f(1) == %r' % (dname, mname, r))
        except Exception as e:
            errors.append('%s with %s: f(1) raises %r instead of returning 3' % (dname, mname, e))
    evals = []
    def g(x, y=2):
        evals.append(x); return x + y
    s = safe.lru_cache(maxsize=10, keymap=mk())(g)
    s(1); s(1); s(1)
    if len(evals) != 1:
        errors.append('safe.lru_cache with %s: g(1) evaluated %d times for 3 identical calls, info=%r'
                      % (mname, len(evals), s.info()))
if errors:
    print('DEFECT (flat=False keys are unhashable):')
    for e in errors: print('  -', e)
    sys.exit(1)
print('ok')

"""C01: one decorator OBJECT applied to two functions.  The memory cache is
created in the decorator's __init__ (not per decorated function) and the key
does not identify the function, so both functions share entries: g(1) is
answered with f(1)'s result.  (functools.lru_cache(maxsize=..) used the same
way gives each function its own cache.)"""
import sys
from klepto import lru_cache, lfu_cache, mru_cache, rr_cache, inf_cache, safe

errors = []
for name, mk in (('lru_cache', lambda: lru_cache(maxsize=10)), ('lfu_cache', lambda: lfu_cache(maxsize=10)),
                 ('mru_cache', lambda: mru_cache(maxsize=10)), ('rr_cache', lambda: rr_cache(maxsize=10)),
                 ('inf_cache', lambda: inf_cache()), ('safe.lru_cache', lambda: safe.lru_cache(maxsize=10))):
    memoize = mk()          # no cache= given: the user never asked for a shared store
    @memoize
    def inc(x): return x + 1
    @memoize
    def neg(x): return -x
    a, b = inc(5), neg(5)
    if (a, b) != (6, -5):
        errors.append('%s: inc(5)=%r, neg(5)=%r (the functions return 6 and -5); neg.info()=%r'
                      % (name, a, b, neg.info()))
if errors:
    print('DEFECT (a decorator instance shares one cache between the functions it decorates):')
    for e in errors: print('  -', e)
    sys.exit(1)
print('ok')

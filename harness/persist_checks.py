"""Engine `persist`: property C04 (a fresh handle or process sees exactly what was written).

1. TLC checks that layer I (specs/PersistImpl.tla: handles without local contents over one store, processes that
   exit, the import system's byte-code cache behind the serialized=False readers) refines layer P
   (specs/PersistP.tla) exhaustively within bounds; with the named deviation "py_bytecode_cache" it must not.
2. TLC generates behaviours (open / write / write-then-mutate / delete / read / rebuild from state, copy or
   pickle in the same or another process / re-decorate a function / tick / exit); each is replayed on real worker
   processes (harness/persist_worker.py), one per spec process, for every persistent archive configuration, with
   byte-code writing on (the default of Python) and off, file modification times driven by the spec's clock.
3. TLC judges every recorded step (specs/PersistTrace.tla).  The single-process part (a fresh handle after every
   mapping operation) is judged on the C03 traces with the C04 clauses of DictP.
"""
import json
import os
import random
import re
import shutil
import subprocess
import time
from concurrent.futures import ThreadPoolExecutor

from . import common
from . import dict_driver as dd
from . import dict_checks as dc

BACKENDS = ['file', 'file-json', 'file-py', 'dir', 'dir-fast', 'dir-compressed', 'dir-json', 'dir-py', 'sql-file']
T0 = 1700000000


def keysets_for(b):
    # C03's known findings about keys (aliasing; over-long directory names are dropped) are not persistence matters
    ks = [k for k in dd.keysets_for(b) if not k.startswith('alias') and not (k == 'long' and b.startswith('dir'))
          and not (k == 'int' and b in ('file-json', 'dir-json'))]
    return ks


def cfg_text(consts, spec, invariants=(), properties=(), view=None):
    return dc.cfg_text(consts, spec, invariants, properties, view)


def model_check(consts, work, workers=6):
    p = os.path.join(work, 'pmc-%s.cfg' % dc._h(consts))
    open(p, 'w').write(cfg_text(consts, 'Spec', properties=['Refines'], view='View'))
    r = common.run_tlc('PersistImpl', p, workdir=work, workers=workers, timeout=2400, heap='6g')
    res = {'constants': {k: (sorted(v) if isinstance(v, (set, frozenset)) else v) for k, v in consts.items()},
           'generated': r.generated, 'distinct': r.distinct, 'depth': r.depth, 'wall': round(r.wall, 1), 'violated': r.violated}
    if r.violated:
        ops = re.findall(r'op \|-> "(\w+)"', r.out)
        res['counterexample'] = re.sub(r'\s+', ' ', r.out[r.out.rfind('/\\ hist ='):][:500])
    elif not r.ok:
        raise common.MachineryError('PersistImpl run failed:\n%s' % r.out[-2500:])
    return res


def generate(consts, work, num, depth, sd):
    c = dict(consts)
    c['DEPTH'] = depth
    p = os.path.join(work, 'pgen-%s-%d.cfg' % (dc._h(c), sd))
    open(p, 'w').write(cfg_text(c, 'Spec', invariants=['Emit']))
    r = common.run_tlc('PersistGen', p, workdir=work, workers=1, timeout=900, heap='2g',
                       simulate='num=%d' % num, depth=depth + 1, extra=['-seed', str(sd)])
    if r.error and 'HIST' not in r.out:
        raise common.MachineryError('PersistGen failed:\n%s' % r.out[-2000:])
    out, seen = [], set()
    for m in re.finditer(r'<<"HIST", "(.*)">>', r.out):
        ops = json.loads(m.group(1).replace('\\"', '"'))['ops']
        pre = json.dumps(ops[:-1], sort_keys=True)
        if pre in seen:
            continue
        seen.add(pre)
        out.append(ops)
    sim = re.findall(r'The number of states generated: (\d+)', r.out)
    return out, (int(sim[-1]) if sim else r.generated)


class Proc(object):
    def __init__(self, backend, keyset, valset, wd, bytecode, hashseed):
        env = dict(os.environ)
        env['PYTHONPATH'] = common.VERIF
        env['PYTHONHASHSEED'] = str(hashseed)
        env.pop('PYTHONDONTWRITEBYTECODE', None)
        if not bytecode:
            env['PYTHONDONTWRITEBYTECODE'] = '1'
        # klepto's own modules must not litter /repo with byte-code either way
        env['PYTHONPYCACHEPREFIX'] = os.path.join(wd, '.pycache-of-imports')
        self.p = subprocess.Popen([common.PY, '-m', 'harness.persist_worker', common.REPO, backend, keyset, valset, wd],
                                  stdin=subprocess.PIPE, stdout=subprocess.PIPE, stderr=subprocess.PIPE, env=env, cwd=wd, text=True)

    def call(self, cmd):
        try:
            self.p.stdin.write(json.dumps(cmd) + '\n')
            self.p.stdin.flush()
            line = self.p.stdout.readline()
        except (BrokenPipeError, OSError):
            line = ''
        if not line:
            err = ''
            try:
                err = self.p.stderr.read()[-1500:]
            except Exception:
                pass
            raise common.MachineryError('persist worker died: %s' % err)
        return json.loads(line)

    def stop(self):
        try:
            self.call({'op': 'quit'})
        except common.MachineryError:
            pass
        try:
            self.p.stdin.close()
            self.p.wait(timeout=20)
        except Exception:
            self.p.kill()
        for s in (self.p.stdout, self.p.stderr):
            try:
                s.close()
            except Exception:
                pass


def run_scenario(job):
    backend, keyset, valset, bytecode, ops, wd = job
    os.makedirs(wd, exist_ok=True)
    procs = {}
    events = []
    clock = 0
    hp = {}
    nk = dd.NK
    try:
        for p in (1, 2):
            procs[p] = Proc(backend, keyset, valset, wd, bytecode, hashseed=p * 7)
        for o in ops:
            op = o['op']
            e = {'op': op, 'p': o.get('p', 1), 'h': o.get('h', 1), 'k': o.get('k', 1), 'v': o.get('v', 0), 'same': True,
                 'kind': 'none', 'evals': 0, 'ret': 0, 'seen': [0] * nk, 'exc': 'none'}
            if op == 'tick':
                clock += 1
                events.append(e)
                continue
            if op == 'exit':
                procs[o['p']].stop()
                del procs[o['p']]
                events.append(e)
                continue
            mt = {'mtime': T0 + clock}
            if op == 'open':
                hp[o['h']] = o['p']
                r = procs[o['p']].call({'op': 'open', 'h': o['h']})
            elif op in ('write', 'writemut', 'del', 'clear'):
                r = procs[hp[o['h']]].call(dict(o, **mt))
                e['p'] = hp[o['h']]
            elif op == 'read':
                r = procs[hp[o['h']]].call(o)
                e['p'] = hp[o['h']]
            elif op == 'rebuild':
                src, p2, how = o['from'], o['p'], o['how']
                if how == 'copy' and hp[src] != p2:
                    how = 'pickle'              # copy() is a method call: only within a process
                if how == 'copy':
                    r = procs[p2].call({'op': 'rebuild', 'how': 'copy', 'from': src, 'h': o['h']})
                else:
                    x = procs[hp[src]].call({'op': 'export', 'h': src, 'how': how})
                    if x['exc'] != 'none':
                        r = x
                    else:
                        r = procs[p2].call({'op': 'rebuild', 'how': how, 'blob': x['blob'], 'state': x['state'], 'h': o['h']})
                hp[o['h']] = p2
                e['how'] = how
            elif op == 'decorate':
                if not keyset.startswith('keymap'):
                    continue                     # a function's calls map to keys only for keymap-produced key sets
                r = procs[o['p']].call(dict(o, **mt))
            else:
                raise common.MachineryError('unknown op %s' % op)
            e['exc'] = r.get('exc', 'none')
            for f in ('seen', 'same', 'kind', 'evals', 'ret'):
                if f in r:
                    e[f] = r[f]
            if 'msg' in r:
                e['msg'] = r['msg']
            events.append(e)
        return {'init': {'c': [0] * nk}, 'events': events,
                'meta': {'backend': backend, 'keyset': keyset, 'valset': valset, 'bytecode': bytecode, 'ops': ops}}
    except common.MachineryError as ex:
        return {'error': str(ex), 'meta': {'backend': backend, 'ops': ops}}
    finally:
        for p in list(procs.values()):
            p.stop()
        shutil.rmtree(wd, True)


def signature(t, v):
    e = t['events'][v[0] - 1]
    m = t['meta']
    return {'engine': 'persist', 'clauses': v[1], 'backend': m['backend'], 'keyset': m['keyset'], 'valset': m['valset'],
            'bytecode': m['bytecode'], 'op': e['op'], 'exc': e['exc'], 'import_based': m['backend'].endswith('-py')}


def main(pid, tier):
    assert pid == 'C04'
    rep = common.Report(pid, tier)
    thorough = tier == 'thorough'
    work = common.scratch('persist')
    rng = random.Random(common.seed() * 13 + 4)
    mcs = []
    base = dict(NK=2, VALS={11, 12, 5}, NP=2, NH=3, DEPTH=6 if thorough else 5, PY=True, Deviations=set())
    for consts in (base, dict(base, PY=False)):
        r = model_check(consts, work)
        mcs.append(r)
        if r['violated']:
            rep.note_drift('layer I does not refine layer P with no deviation enabled: %s' % r['counterexample'][:300])
    r = model_check(dict(base, DEPTH=4, Deviations={'py_bytecode_cache'}), work, workers=2)
    mcs.append(r)
    devs = {'py_bytecode_cache': {'counterexample_found': r['violated']}}
    behaviours = []
    gen_states = 0
    for sd in range(3 if thorough else 1):
        b, st = generate(dict(NK=dd.NK, VALS={11, 12, 5, 23}, NP=2, NH=4, PY=True, Deviations=set()), work,
                         250 if thorough else 60, 14 if thorough else 10, common.seed() + 11 + sd)
        behaviours += b
        gen_states += st
    # the shortest counterexample of the deviation, and two variants of it, are always replayed
    behaviours.insert(0, [{'op': 'open', 'p': 1, 'h': 1}, {'op': 'write', 'h': 1, 'k': 1, 'v': 11}, {'op': 'write', 'h': 1, 'k': 1, 'v': 12},
                          {'op': 'open', 'p': 2, 'h': 2}, {'op': 'read', 'h': 2}])
    behaviours.insert(1, [{'op': 'open', 'p': 1, 'h': 1}, {'op': 'write', 'h': 1, 'k': 1, 'v': 11}, {'op': 'open', 'p': 2, 'h': 2},
                          {'op': 'read', 'h': 2}, {'op': 'write', 'h': 1, 'k': 1, 'v': 12}, {'op': 'read', 'h': 2},
                          {'op': 'exit', 'p': 1}, {'op': 'read', 'h': 2}, {'op': 'tick'}, {'op': 'write', 'h': 2, 'k': 2, 'v': 23}, {'op': 'read', 'h': 2}])
    combos = []
    for b in BACKENDS:
        for ks in keysets_for(b):
            for vs in dd.valsets_for(b):
                if vs == 'srcinf':
                    continue          # (C03's known finding about source text; not a persistence matter)
                combos.append((b, ks, 'none12' if vs == 'nonev' else vs))
    jobs = []
    root = common.scratch('persist-run')
    for n, ops in enumerate(behaviours):
        k = 6 if thorough else 2
        pick = [combos[(n * 11 + i * 29) % len(combos)] for i in range(k)]
        if n < 2:
            pick = [c for c in combos if c[2] == 'int' and c[1] in ('str', 'keymap-hash')]
        for (b, ks, vs) in pick:
            for bytecode in ((True, False) if (thorough or n < 2 or b.endswith('-py')) else (bool((n + len(jobs)) % 2),)):
                jobs.append((b, ks, vs, bytecode, ops, os.path.join(root, 'j%d' % len(jobs))))
    t0 = time.time()
    with ThreadPoolExecutor(max_workers=common.NCPU) as ex:
        traces = list(ex.map(run_scenario, jobs))
    bad = [t for t in traces if 'error' in t]
    if bad:
        raise common.MachineryError('persist scenario failed (%d): %s' % (len(bad), bad[0]))
    t_run = time.time() - t0
    verdicts, st = common.validate_traces('PersistTrace', [{k: t[k] for k in ('init', 'events')} for t in traces], [pid])
    nrej = 0
    for t, v in zip(traces, verdicts):
        if v is None:
            continue
        nrej += 1
        e = t['events'][v[0] - 1]
        rep.reject(signature(t, v), dict(t['meta'], ops=t['meta']['ops'], event_index=v[0], clauses=v[1], event=e))
    hashes = {common.trace_hash([t['meta']['backend'], t['meta']['keyset'], t['meta']['valset'], t['meta']['bytecode'], t['events']]) for t in traces}
    nontriv = sum(1 for t in traces if any(e['op'] in ('rebuild', 'exit', 'decorate') for e in t['events'])
                  and len({e['p'] for e in t['events'] if e['op'] in ('write', 'writemut', 'read', 'open')}) > 1)
    s0 = traces[1] if len(traces) > 1 else traces[0]
    sample = {'config': {k: s0['meta'][k] for k in ('backend', 'keyset', 'valset', 'bytecode')},
              'events': [{k: e.get(k) for k in ('op', 'p', 'h', 'k', 'v', 'seen', 'exc')} for e in s0['events'][:8]]}
    cov = {'states': sum(m['distinct'] for m in mcs) + st['states'],
           'transitions': sum(m['generated'] for m in mcs) + gen_states + st['events'],
           'traces_validated_against_impl': len(traces), 'samples': [sample],
           'evaluations': len(traces), 'distinct_nontrivial': min(nontriv, len(hashes)),
           'rule': 'one evaluation = one behaviour replayed on two real worker processes for one (archive configuration, key set, value '
                   'set, byte-code on/off); distinct by hash of configuration + events; non-trivial = handles of both processes were '
                   'used and the behaviour contains a rebuild, an exit or a re-decoration',
           'exhaustive': False, 'named_deviations': devs, 'configurations': len(combos),
           'model_checking': {'layer_I_runs': mcs, 'behaviours': len(behaviours), 'generation_states': gen_states},
           'trace_validation': {'traces': len(traces), 'events': st['events'], 'rejected': nrej, 'wall_s': round(st['wall'], 1),
                                'run_wall_s': round(t_run, 1)}}
    # the single-process clauses (a fresh handle after every mapping operation) on the dict engine's behaviours
    dcov, _ = dc.run(pid, tier, rep)
    cov['states'] += dcov['states']
    cov['transitions'] += dcov['transitions']
    cov['traces_validated_against_impl'] += dcov['traces_validated_against_impl']
    cov['evaluations'] += dcov['evaluations']
    cov['distinct_nontrivial'] += dcov['distinct_nontrivial']
    cov['single_process_pass'] = {k: dcov[k] for k in ('configurations', 'trace_validation')}
    return rep.finish('model_checking', cov, [
        'worker processes are fresh interpreters with their own PYTHONHASHSEED; byte-code writing is explicitly on (Python\'s '
        'default) or off; PYTHONPYCACHEPREFIX points byte-code (of klepto\'s own modules and of the archive\'s source files alike) '
        'to a scratch directory so that /repo is not littered - where byte-code is kept does not change how it is validated',
        'file modification times are set from the spec\'s clock after every write (two writes without a tick in between carry the same '
        'second, which a real run can produce by writing twice within a second)',
        'process exit is a normal exit (crashes are C13); concurrent access is C14: operations here are sequential',
        'the single-process clauses (C04.FreshHandleSeesSame, C04.WrittenIsStored of DictP) are judged on the dict engine\'s '
        'behaviours over the persistent configurations in the same run; a set-bad (unencodable) operation in those behaviours is '
        'C03\'s business and only its persistence is judged here'])


def replay(pid, path):
    case = json.load(open(path))['case']
    wd = os.path.join(common.scratch('persist-replay'), 'r')
    t = run_scenario((case['backend'], case['keyset'], case['valset'], case['bytecode'], case['ops'], wd))
    if 'error' in t:
        raise common.MachineryError(t['error'])
    verdicts, _ = common.validate_traces('PersistTrace', [{k: t[k] for k in ('init', 'events')}], [pid])
    if verdicts[0] is None:
        print('replay: accepted on the current tree')
        return common.EXIT_OK
    print('VIOLATION property=%s replay=%s' % (pid, path))
    print('  clauses: %s at event %d: %s' % (verdicts[0][1], verdicts[0][0], json.dumps(t['events'][verdicts[0][0] - 1])[:500]))
    return common.EXIT_VIOLATION

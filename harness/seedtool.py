"""Evaluate seeded changes (realistic property-breaking patches written by independent sub-agents).

  python -m harness.seedtool import <srcdir> <PROP>      copy out/change<k>.diff etc. into seeded/<PROP>-<k>/
  python -m harness.seedtool verify <seed id> [...]       confirm: demo passes clean, fails patched, 46 tests pass
  python -m harness.seedtool run <seed id> [--checks C01,C02] [--tier quick]
                                                          apply to a scratch copy of /repo, run the checks with
                                                          VERIF_REPO=<copy>, record detected / missed in meta.json

Nothing is ever applied to /repo itself: every run works on a scratch copy (git archive of /repo's HEAD
plus its uncommitted changes are NOT included) that is removed afterwards.
"""
import json
import os
import shutil
import subprocess
import sys
import tempfile
import time

VERIF = os.path.dirname(os.path.dirname(os.path.abspath(__file__)))
SEEDED = os.path.join(VERIF, 'seeded')
PY = '/venv/bin/python'
TESTCMD = [PY, '-m', 'pytest', '-q', '-p', 'no:cacheprovider', '--timeout=900', '--continue-on-collection-errors']


def scratch_copy():
    d = tempfile.mkdtemp(prefix='klepto-seed-')
    p1 = subprocess.Popen(['git', '-C', '/repo', 'archive', 'HEAD'], stdout=subprocess.PIPE)
    subprocess.check_call(['tar', '-x', '-C', d], stdin=p1.stdout)
    p1.wait()
    return d


def apply_patch(tree, diff):
    r = subprocess.run(['patch', '-p1', '--fuzz=3', '-s', '-i', diff], cwd=tree, capture_output=True, text=True)
    return r.returncode == 0, r.stdout + r.stderr


def run_demo(tree, demo):
    env = dict(os.environ, PYTHONPATH=tree, PYTHONDONTWRITEBYTECODE='1')
    r = subprocess.run([PY, demo], cwd=tempfile.gettempdir(), env=env, capture_output=True, text=True, timeout=600)
    return r.returncode, (r.stdout + r.stderr)[-1500:]


def run_tests(tree):
    env = dict(os.environ, PYTHONPATH=tree, PYTHONDONTWRITEBYTECODE='1')
    r = subprocess.run(TESTCMD, cwd=tree, env=env, capture_output=True, text=True, timeout=1800)
    tail = (r.stdout + r.stderr).strip().splitlines()[-1] if (r.stdout + r.stderr).strip() else ''
    return tail


def cmd_import(src, prop, offset=0):
    out = os.path.join(src, 'out')
    n = 0
    for k in (1, 2, 3, 4):
        diff = os.path.join(out, 'change%d.diff' % k)
        if not os.path.exists(diff):
            continue
        sid = '%s-%d' % (prop, k + offset)
        if os.path.exists(os.path.join(SEEDED, sid)):
            raise SystemExit('%s exists: choose another offset' % sid)
        d = os.path.join(SEEDED, sid)
        os.makedirs(d, exist_ok=True)
        shutil.copy(diff, os.path.join(d, 'patch.diff'))
        shutil.copy(os.path.join(out, 'demo%d.py' % k), os.path.join(d, 'demo.py'))
        try:
            meta = json.load(open(os.path.join(out, 'meta%d.json' % k)))
        except Exception as e:
            meta = {'property': prop, 'what': 'meta unreadable: %s' % e}
        meta['seed_id'] = sid
        meta['breaks_property'] = prop
        meta.setdefault('verification', {})
        json.dump(meta, open(os.path.join(d, 'meta.json'), 'w'), indent=1)
        n += 1
    print('imported %d seeds for %s' % (n, prop))


def cmd_verify(sid):
    d = os.path.join(SEEDED, sid)
    meta = json.load(open(os.path.join(d, 'meta.json')))
    tree = scratch_copy()
    try:
        rc0, out0 = run_demo(tree, os.path.join(d, 'demo.py'))
        ok, msg = apply_patch(tree, os.path.join(d, 'patch.diff'))
        res = {'demo_clean_rc': rc0, 'patch_applies': ok}
        if ok:
            rc1, out1 = run_demo(tree, os.path.join(d, 'demo.py'))
            res['demo_patched_rc'] = rc1
            res['demo_patched_tail'] = out1[-400:]
            res['tests_patched'] = run_tests(tree)
        else:
            res['patch_msg'] = msg[-400:]
        res['confirmed'] = bool(ok and rc0 == 0 and res.get('demo_patched_rc', 0) != 0
                                and '46 passed' in res.get('tests_patched', ''))
        res['head'] = subprocess.run(['git', '-C', '/repo', 'rev-parse', '--short', 'HEAD'], capture_output=True, text=True).stdout.strip()
        meta['verification'] = res
        json.dump(meta, open(os.path.join(d, 'meta.json'), 'w'), indent=1)
        print(sid, 'confirmed' if res['confirmed'] else 'NOT CONFIRMED', {k: v for k, v in res.items() if k != 'demo_patched_tail'})
        return res['confirmed']
    finally:
        shutil.rmtree(tree, True)


def cmd_run(sid, checks=None, tier='quick'):
    d = os.path.join(SEEDED, sid)
    meta = json.load(open(os.path.join(d, 'meta.json')))
    checks = checks or [meta['breaks_property']]
    tree = scratch_copy()
    results = meta.setdefault('detection', {})
    try:
        ok, msg = apply_patch(tree, os.path.join(d, 'patch.diff'))
        if not ok:
            print(sid, 'patch does not apply:', msg[-300:])
            return
        # a patch written against an older commit may "apply" with fuzz in the wrong place: it must at least still compile
        cp = subprocess.run([PY, '-m', 'compileall', '-q', os.path.join(tree, 'klepto')], capture_output=True, text=True,
                            env=dict(os.environ, PYTHONDONTWRITEBYTECODE='', PYTHONPYCACHEPREFIX=os.path.join(tree, '.pyc')))
        if cp.returncode != 0:
            print(sid, 'STALE: the patch no longer applies to the current lines (the patched tree does not compile):', (cp.stdout + cp.stderr)[-200:].replace('\n', ' '))
            return
        for c in checks:
            # evidence of a run on a scratch copy does not belong in /verif/evidence
            env = dict(os.environ, VERIF_REPO=tree, VERIF_REPLAYS=os.path.join(tree, '.replays'),
                       VERIF_EVIDENCE=os.path.join(tree, '.evidence'))
            t0 = time.time()
            r = subprocess.run([os.path.join(VERIF, 'check'), c, '--tier', tier], cwd=VERIF, env=env,
                               capture_output=True, text=True, timeout=7200)
            lines = [l for l in r.stdout.splitlines() if l.startswith('VIOLATION') or l.startswith('  signature')]
            results[c] = {'exit': r.returncode, 'tier': tier, 'wall_s': round(time.time() - t0, 1),
                          'violations': lines[:6], 'stderr_tail': r.stderr[-300:] if r.returncode == 2 else ''}
            print(sid, c, 'DETECTED' if r.returncode == 1 else ('MISSED' if r.returncode == 0 else 'MACHINERY'), results[c]['wall_s'], lines[:2])
        json.dump(meta, open(os.path.join(d, 'meta.json'), 'w'), indent=1)
    finally:
        shutil.rmtree(tree, True)


def main(argv):
    if argv[0] == 'import':
        cmd_import(argv[1], argv[2], int(argv[3]) if len(argv) > 3 else 0)
    elif argv[0] == 'verify':
        for sid in argv[1:]:
            cmd_verify(sid)
    elif argv[0] == 'run':
        checks = None
        tier = 'quick'
        ids = []
        it = iter(argv[1:])
        for a in it:
            if a == '--checks':
                checks = next(it).split(',')
            elif a == '--tier':
                tier = next(it)
            else:
                ids.append(a)
        for sid in ids:
            cmd_run(sid, checks, tier)
    elif argv[0] == 'summary':
        for sid in sorted(os.listdir(SEEDED)):
            try:
                m = json.load(open(os.path.join(SEEDED, sid, 'meta.json')))
            except Exception:
                continue
            det = {c: ('DETECTED' if v['exit'] == 1 else 'missed' if v['exit'] == 0 else 'machinery') for c, v in m.get('detection', {}).items()}
            print(sid, 'confirmed' if m.get('verification', {}).get('confirmed') else 'unconfirmed', det)


if __name__ == '__main__':
    main(sys.argv[1:])

"""Engine `dict`: property C03 (every archive type refines a Python dict) and the single-process part of
C04 (a fresh handle sees what was written).

1. TLC checks that layer I (specs/DictImpl.tla: the mapping protocol as each archive family implements it on its
   storage - whole-file read-modify-write, one directory per key named by _fname, SQL rows with history) refines
   layer P (specs/DictP.tla: what a dict does) exhaustively within bounds, for every backend family; one more run
   per named deviation must produce a counterexample.
2. TLC generates behaviours from layer I (all short sequences, simulation walks); random sequences are added.
3. Every behaviour is replayed on real archives (harness/dict_driver.py) for every constructible configuration,
   key set and value set; TLC judges every recorded step (specs/DictTrace.tla).
"""
import json
import multiprocessing
import os
import random
import re
import shutil
import time

from . import common
from . import dict_driver as dd

ALL_OPS = ['set', 'get', 'getd', 'del', 'contains', 'len', 'iter', 'keys', 'values', 'items', 'pop', 'popd', 'popitem',
           'popkeys', 'popkeysd', 'setdefault', 'update', 'clear', 'copy', 'eq', 'ne']
MC_OPS = ALL_OPS + ['setbad', 'updatebad']          # the operations of the model (layer I)
FAMILIES = ['dict', 'null', 'file', 'dir', 'sql']
DEVIATIONS = {
    'dir_del_missing_silent': dict(BACKEND='dir', FNID=0, OPS={'set', 'del'}, Deviations={'dir_del_missing_silent'}),
    'dir_fname_alias': dict(BACKEND='dir', FNID=1, OPS={'set', 'get', 'contains', 'del'}, Deviations=set()),
    'update_partial_on_failure': dict(BACKEND='sql', FNID=0, OPS={'set', 'updatebad'}, Deviations={'update_partial_on_failure'}),
}


def cfg_text(consts, spec, invariants=(), properties=(), view=None):
    lines = ['SPECIFICATION %s' % spec, 'CONSTANTS']
    for k, v in consts.items():
        lines.append('  %s = %s' % (k, '{}' if isinstance(v, (set, frozenset)) and not v else common.tla_value(v)))
    lines += ['INVARIANT %s' % i for i in invariants]
    lines += ['PROPERTY %s' % p for p in properties]
    if view:
        lines.append('VIEW %s' % view)
    lines.append('CHECK_DEADLOCK FALSE')
    return '\n'.join(lines) + '\n'


def _h(consts):
    return common.trace_hash(sorted((k, repr(sorted(v) if isinstance(v, (set, frozenset)) else v)) for k, v in consts.items()))


def model_check(consts, work, workers=4, expect_violation=False):
    p = os.path.join(work, 'mc-%s.cfg' % _h(consts))
    open(p, 'w').write(cfg_text(consts, 'Spec', properties=['Refines'], view='View'))
    r = common.run_tlc('DictImpl', p, workdir=work, workers=workers, timeout=2400, heap='6g')
    res = {'constants': {k: (sorted(v) if isinstance(v, (set, frozenset)) else v) for k, v in consts.items()},
           'generated': r.generated, 'distinct': r.distinct, 'depth': r.depth, 'wall': round(r.wall, 1), 'violated': r.violated}
    if r.violated:
        i = r.out.find('State 2')
        res['counterexample'] = re.sub(r'\s+', ' ', r.out[i:i + 500])
    elif not r.ok:
        raise common.MachineryError('DictImpl run failed:\n%s' % r.out[-2500:])
    return res


def generate(consts, work, num, depth, sd, exhaustive=False):
    c = dict(consts)
    c['DEPTH'] = depth
    p = os.path.join(work, 'gen-%s-%d.cfg' % (_h(c), sd))
    open(p, 'w').write(cfg_text(c, 'Spec', invariants=['Emit']))
    if exhaustive:
        r = common.run_tlc('DictGen', p, workdir=work, workers=1, timeout=900, heap='4g')
    else:
        r = common.run_tlc('DictGen', p, workdir=work, workers=1, timeout=900, heap='2g',
                           simulate='num=%d' % num, depth=depth + 1, extra=['-seed', str(sd)])
    if r.error and 'HIST' not in r.out:
        raise common.MachineryError('DictGen failed:\n%s' % r.out[-2000:])
    out, seen = [], set()
    for m in re.finditer(r'<<"HIST", "(.*)">>', r.out):
        s = m.group(1)
        if s not in seen:
            seen.add(s)
            ops = json.loads(s.replace('\\"', '"'))['ops']
            if not exhaustive:
                # in simulation mode TLC evaluates the invariant on every successor of the walk's last state:
                # keep one behaviour per walk (distinct prefix)
                pre = json.dumps(ops[:-1], sort_keys=True)
                if pre in seen:
                    continue
                seen.add(pre)
            out.append(ops)
    sim = re.findall(r'The number of states generated: (\d+)', r.out)
    return out, (int(sim[-1]) if sim else r.generated)


def random_ops(rng, n, bad=True):
    ops = []
    copied = False
    for _ in range(n):
        op = rng.choice(ALL_OPS + ['set', 'set', 'updatekw', 'updatekwonly', 'updateitems', 'update0', 'eqx', 'xeq'] + (['setbad', 'updatebad'] if bad else []))
        locs = [1, 2] + ([3] if copied else [])
        o = {'op': op, 'loc': rng.choice(locs)}
        k = rng.randint(1, dd.NK)
        if op in ('set', 'setdefault'):
            o.update(k=k, v=10 * k + rng.randint(1, 3))
        elif op in ('get', 'del', 'contains', 'pop', 'setbad'):
            o.update(k=k)
        elif op in ('getd', 'popd'):
            o.update(k=k, d=dd.DEFAULT)
        elif op in ('popkeys', 'popkeysd'):
            ks = rng.sample(range(1, dd.NK + 1), rng.randint(1, 2))
            if rng.random() < 0.3:
                ks.append(ks[0])          # the same key listed twice
            o.update(ks=ks, d=dd.DEFAULT, how=rng.choice(['list', 'list', 'iter', 'iter', 'tuple', 'view']))
        elif op == 'updatebad':
            k2 = rng.choice([x for x in range(1, dd.NK + 1) if x != k])
            o.update(k=k, v=10 * k + rng.randint(1, 3), k2=k2)
        elif op in ('update', 'updatekw', 'updatekwonly', 'updateitems'):
            k2 = rng.choice([x for x in range(1, dd.NK + 1) if x != k])
            o.update(k=k, v=10 * k + rng.randint(1, 3), k2=k2, v2=10 * k2 + rng.randint(1, 3))
        elif op == 'copy':
            if copied:
                o = {'op': 'len', 'loc': 1}
            else:
                o.update(loc=1, o=3)
                copied = True
        elif op in ('eq', 'ne', 'eqx', 'xeq'):
            o.update(o=rng.choice([x for x in locs if x != o['loc']]))
        ops.append(o)
    return ops


# deterministic probes of corners random walks reach only by luck (each motivated by a seeded change they missed)
PROBES = [
    # a key that goes back to an EARLIER value (v1 -> v2 -> v1): comparisons, copies and bulk reads must see the last write
    [dict(op='set', loc=1, k=1, v=11), dict(op='set', loc=1, k=1, v=12), dict(op='set', loc=1, k=2, v=21),
     dict(op='set', loc=1, k=1, v=11), dict(op='set', loc=2, k=1, v=11), dict(op='set', loc=2, k=2, v=21),
     dict(op='eq', loc=1, o=2), dict(op='eq', loc=2, o=1), dict(op='eqx', loc=1, o=2), dict(op='xeq', loc=1, o=2),
     dict(op='copy', loc=1, o=3), dict(op='items', loc=3), dict(op='eq', loc=3, o=2), dict(op='ne', loc=1, o=3),
     dict(op='set', loc=2, k=1, v=12), dict(op='eq', loc=1, o=2), dict(op='eqx', loc=2, o=1)],
    # equal size, different key sets, a stored None-like second value; failing bulk update between reads
    [dict(op='set', loc=1, k=1, v=11), dict(op='set', loc=1, k=3, v=32), dict(op='set', loc=2, k=1, v=11),
     dict(op='set', loc=2, k=4, v=42), dict(op='eq', loc=1, o=2), dict(op='ne', loc=1, o=2), dict(op='eqx', loc=1, o=2),
     dict(op='updatebad', loc=1, k=2, v=21, k2=3), dict(op='items', loc=1), dict(op='len', loc=1),
     dict(op='update', loc=1, k=2, v=22, k2=3, v2=31), dict(op='items', loc=1), dict(op='keys', loc=1),
     dict(op='popkeys', loc=1, ks=[1, 2, 1], d=77), dict(op='items', loc=1), dict(op='popkeysd', loc=1, ks=[4, 4], d=77),
     dict(op='popkeys', loc=2, ks=[1, 4], d=77, how='iter'), dict(op='items', loc=2), dict(op='popkeysd', loc=2, ks=[2, 3], d=77, how='iter'),
     dict(op='update0', loc=1), dict(op='updatekwonly', loc=1, k=1, v=12, k2=4, v2=41), dict(op='updateitems', loc=2, k=2, v=21, k2=3, v2=33),
     dict(op='items', loc=1), dict(op='items', loc=2)],
    # popitem / pop / setdefault / get after a key has been overwritten (a store that keeps a history must hand out the LAST value)
    [dict(op='set', loc=1, k=1, v=11), dict(op='set', loc=1, k=1, v=12), dict(op='set', loc=1, k=1, v=13), dict(op='popitem', loc=1),
     dict(op='items', loc=1), dict(op='set', loc=2, k=2, v=21), dict(op='set', loc=2, k=2, v=22), dict(op='setdefault', loc=2, k=2, v=23),
     dict(op='get', loc=2, k=2), dict(op='pop', loc=2, k=2), dict(op='set', loc=2, k=3, v=31), dict(op='update', loc=2, k=3, v=32, k2=4, v2=41),
     dict(op='popitem', loc=2), dict(op='popitem', loc=2), dict(op='len', loc=2)],
    # what a failed bulk update leaves behind must not be undone (or completed) by a LATER failing or succeeding operation
    [dict(op='set', loc=1, k=1, v=11), dict(op='updatebad', loc=1, k=2, v=21, k2=3), dict(op='items', loc=1),
     dict(op='setbad', loc=1, k=4), dict(op='items', loc=1), dict(op='len', loc=1), dict(op='set', loc=2, k=1, v=12),
     dict(op='items', loc=2), dict(op='updatebad', loc=1, k=4, v=41, k2=1), dict(op='set', loc=1, k=3, v=31), dict(op='items', loc=1),
     dict(op='del', loc=1, k=3), dict(op='setbad', loc=1, k=3), dict(op='keys', loc=1), dict(op='items', loc=2)],
]


def usable_ops(ops, backend, keyset, valset=None):
    """drop operations a configuration cannot express (keyword update needs str keys; cached objects have dict.copy)"""
    out = []
    for o in ops:
        if o['op'] in ('updatekw', 'updatekwonly') and keyset not in ('str', 'alias-dash', 'dash', 'slash', 'prefixy', 'prefixy-id'):
            o = dict(o, op='update')       # (keyword arguments need string keys)
        if o['op'] == 'copy' and backend.endswith('+cache'):
            continue
        if o.get('loc') == 3 and backend.endswith('+cache'):
            continue
        if o.get('o') == 3 and backend.endswith('+cache'):
            continue
        if o['op'] in ('eqx', 'xeq') and backend.endswith('+cache'):
            continue
        if o['op'] == 'values' and valset == 'nonev':
            continue          # (a bare None in values() cannot be attributed to a key)
        if o['op'] in ('eq', 'ne', 'eqx', 'xeq') and valset in ('func', 'mainfunc', 'maininst'):
            continue          # functions compare by identity: two archives holding "the same" function are not ==
        out.append(o)
    return out


def _replay_one(job):
    backend, keyset, valset, ops, wd = job
    os.makedirs(wd, exist_ok=True)
    cwd = os.getcwd()
    try:
        klepto = common.import_klepto()
        r = dd.Recorder(klepto, backend, keyset, valset, wd)
        ops = usable_ops(ops, backend, keyset, valset)
        t = r.run(ops)
        t['meta'] = {'backend': backend, 'keyset': keyset, 'valset': valset, 'ops': ops}
        return t
    except common.MachineryError as e:
        return {'error': str(e)}
    finally:
        os.chdir(cwd)
        shutil.rmtree(wd, True)


def _dict_would(c, e):
    """contents a dict would have after the operation of event e (an operation that raised is taken to change nothing)"""
    c = [list(row) for row in c]
    m = c[e['loc'] - 1]
    op = e['op']
    if e['exc'] != 'none':
        return c
    if op in ('set',):
        m[e['k'] - 1] = e['v']
    elif op == 'setbad':
        m[e['k'] - 1] = dd.BAD
    elif op == 'setdefault':
        if m[e['k'] - 1] == 0:
            m[e['k'] - 1] = e['v']
    elif op in ('del', 'pop', 'popd'):
        m[e['k'] - 1] = 0
    elif op == 'popitem':
        if len(e['rs']) == 2 and 1 <= e['rs'][0] <= len(m):
            m[e['rs'][0] - 1] = 0
    elif op in ('popkeys', 'popkeysd'):
        for k in e['ks']:
            m[k - 1] = 0
    elif op in ('update', 'updatekw', 'updatekwonly', 'updateitems'):
        m[e['k'] - 1] = e['v']
        m[e['k2'] - 1] = e['v2']
    elif op == 'updatebad':
        m[e['k'] - 1] = e['v']
        m[e['k2'] - 1] = dd.BAD
    elif op == 'clear':
        for k in range(len(m)):
            m[k] = 0
    elif op == 'copy':
        c[e['o'] - 1] = list(m)
    return c


def signature(t, v, pid):
    e = t['events'][v[0] - 1]
    m = t['meta']
    prev = t['events'][v[0] - 2] if v[0] >= 2 else t['init']
    # the two aliasing key sets: keys 1 and 2 share a directory name.  `alias_effect`: everything this step changed lies
    # within that pair and every location is still readable - what the (known) aliasing can explain, and nothing else
    want = _dict_would(prev['c'], e)      # (used to classify a rejection only: the verdict is TLC's)
    changed = {(l, k) for l in range(len(e['c'])) for k in range(len(e['c'][l])) if e['c'][l][k] != want[l][k]}
    unreadable = any(x == -9 for row in e['c'] for x in row) or any(x == -9 for row in e.get('cf', []) for x in row)
    alias_effect = m['keyset'].startswith('alias') and all(k in (0, 1) for (_l, k) in changed) and not unreadable \
        and e['exc'] in ('none', 'KeyError')
    return {'engine': 'dict', 'clauses': v[1], 'backend': m['backend'], 'family': m['backend'].split('-')[0].split('+')[0],
            'keyset': m['keyset'], 'valset': m['valset'], 'op': e['op'], 'exc': e['exc'], 'alias_effect': alias_effect}


def plan(pid, tier, rng, behaviours):
    """which (backend, key set, value set) runs which behaviour"""
    thorough = tier == 'thorough'
    backends = dd.BACKENDS if pid == 'C03' else [b for b in dd.BACKENDS if b in dd.PERSISTENT]
    combos = []
    for b in backends:
        for ks in dd.keysets_for(b):
            for vs in dd.valsets_for(b):
                if pid != 'C03' and (ks.startswith('alias') or vs == 'srcinf' or (ks == 'long' and b.startswith('dir'))
                                     or (ks == 'int' and b.split('+')[0] in ('file-json', 'dir-json'))):
                    continue          # C03's known findings (key aliasing, over-long keys, unreadable source text) are not persistence matters
                combos.append((b, ks, vs))
    jobs = []
    root = common.scratch('dict-replay')
    for n, ops in enumerate(behaviours):
        if thorough:
            pick = [combos[(n * 7 + i) % len(combos)] for i in range(6)]
        else:
            pick = [combos[(n * 5 + i * 37) % len(combos)] for i in range(2)]
        for (b, ks, vs) in pick:
            jobs.append((b, ks, vs, ops, os.path.join(root, 'j%d' % len(jobs))))
    # every combination at least once, with a behaviour of its own
    for i, (b, ks, vs) in enumerate(combos):
        jobs.append((b, ks, vs, behaviours[(i * 3) % len(behaviours)], os.path.join(root, 'j%d' % len(jobs))))
    # the probes: on every (backend, value set), with every key set in the thorough tier and a rotating one otherwise
    seen = {}
    for (b, ks, vs) in combos:
        seen.setdefault((b, vs), []).append(ks)
    for n, ((b, vs), kss) in enumerate(sorted(seen.items())):
        for ks in (kss if thorough else [kss[n % len(kss)], kss[0]]):
            for pr in PROBES:
                jobs.append((b, ks, vs, [dict(o) for o in pr], os.path.join(root, 'j%d' % len(jobs))))
    return jobs, combos


def main(pid, tier):
    assert pid == 'C03'
    rep = common.Report(pid, tier)
    cov, assumptions = run(pid, tier, rep)
    return rep.finish('model_checking', cov, assumptions)


def run(pid, tier, rep):
    """the whole dict-engine pass for one property (C03, or the single-process clauses of C04); rejections go to `rep`"""
    thorough = tier == 'thorough'
    work = common.scratch('dict')
    rng = random.Random(common.seed() * 17 + int(pid[1:]))
    mcs = []
    from concurrent.futures import ThreadPoolExecutor
    base = dict(NK=3, NV=2, NL=3, FNID=0, DEPTH=5 if thorough else 4, OPS=set(MC_OPS), Deviations=set())
    with ThreadPoolExecutor(max_workers=5) as ex:
        for r in ex.map(lambda fam: model_check(dict(base, BACKEND=fam, DEPTH=base['DEPTH'] - (1 if fam == 'sql' and thorough else 0)), work, workers=3), FAMILIES):
            mcs.append(r)
            if r['violated']:
                rep.note_drift('layer I (%s) does not refine layer P with no deviation enabled: %s' % (r['constants']['BACKEND'], r['counterexample'][:300]))
    devs = {}
    for d, over in sorted(DEVIATIONS.items()):
        r = model_check(dict(base, DEPTH=3, **over), work, workers=2)
        mcs.append(r)
        devs[d] = {'counterexample_found': r['violated']}
        if not r['violated']:
            rep.notes.append('deviation %s: no counterexample (model insensitive?)' % d)
    behaviours = []
    gen_states = 0
    gconst = dict(BACKEND='file', NK=dd.NK, NV=3, NL=3, FNID=0, OPS=set(MC_OPS), Deviations=set())
    b, st = generate(gconst, work, 300 if thorough else 50, 30 if thorough else 18, common.seed() + 3)
    behaviours += b
    gen_states += st
    # every sequence of length 3 over the mutating core (exhaustive), on one key
    b, st = generate(dict(gconst, NK=1 if not thorough else 2, NV=1, NL=2,
                          OPS={'set', 'del', 'pop', 'popitem', 'setdefault', 'clear', 'get', 'contains'}),
                     work, 0, 3, 0, exhaustive=True)
    behaviours += b
    gen_states += st
    for _ in range(1200 if thorough else 120):
        behaviours.append(random_ops(rng, 30 if thorough else 20))
    jobs, combos = plan(pid, tier, rng, behaviours)
    t0 = time.time()
    ctx = multiprocessing.get_context('fork')
    with ctx.Pool(common.NCPU) as pool:
        traces = pool.map(_replay_one, jobs, chunksize=4)
    bad = [t for t in traces if 'error' in t]
    if bad:
        raise common.MachineryError('dict recorder failed: %s' % bad[0])
    t_replay = time.time() - t0
    strip = [{k: t[k] for k in ('cfg', 'init', 'events')} for t in traces]
    verdicts, st = common.validate_traces('DictTrace', strip, [pid])
    # a trace is judged up to its first rejected event (what follows runs on contents the defect has already
    # disturbed); the many traces of a run give later operations their own clean prefixes.  Except: when the rejected
    # event is a KNOWN finding the rest of the trace is judged too, as a trace of its own that starts from the contents
    # observed after that event - a recorded finding must not hide what happens after it
    nrej = 0
    pending = [(t, v, 0) for t, v in zip(traces, verdicts) if v is not None]
    rounds = 0
    while pending:
        rounds += 1
        cont = []
        for t, v, base in pending:
            nrej += 1
            e = t['events'][v[0] - 1]
            how = rep.reject(signature(t, v, pid), {'backend': t['meta']['backend'], 'keyset': t['meta']['keyset'], 'valset': t['meta']['valset'],
                                                    'ops': t['meta']['ops'][:base + v[0]], 'event_index': base + v[0], 'clauses': v[1], 'event': e})
            if how == 'known' and len(t['events']) > v[0] and e.get('usable', True) and rounds <= 4:
                ex = list(t['init']['ex'])
                for ev in t['events'][:v[0]]:
                    if ev['op'] == 'copy' and ev.get('exc', 'none') == 'none':
                        ex[ev['o'] - 1] = True
                init = {k: e[k] for k in ('c', 'cf', 'n', 'kk', 'usable') if k in e}
                init['ex'] = ex
                cont.append((dict(t, init=init, events=t['events'][v[0]:]), base + v[0]))
        if not cont:
            break
        vs, st2 = common.validate_traces('DictTrace', [{k: t[k] for k in ('cfg', 'init', 'events')} for t, _ in cont], [pid])
        st['states'] += st2['states']
        pending = [(t, v, base) for (t, base), v in zip(cont, vs) if v is not None]
    hashes = set()
    nontriv = 0
    for t in traces:
        h = common.trace_hash([t['meta']['backend'], t['meta']['keyset'], t['meta']['valset'], t['events']])
        if h not in hashes:
            hashes.add(h)
            if sum(1 for p, e in zip([t['init']] + t['events'], t['events']) if e['c'] != p['c']) >= 2:
                nontriv += 1
    t0_ = traces[0]
    sample = {'backend': t0_['meta']['backend'], 'keyset': t0_['meta']['keyset'], 'valset': t0_['meta']['valset'],
              'ops': t0_['meta']['ops'][:8],
              'events': [{k: e[k] for k in ('op', 'loc', 'ri', 'rs', 'exc', 'c')} for e in t0_['events'][:4]]}
    cov = {'states': sum(m['distinct'] for m in mcs) + st['states'],
           'transitions': sum(m['generated'] for m in mcs) + gen_states + st['events'],
           'traces_validated_against_impl': len(traces), 'samples': [sample],
           'evaluations': len(traces), 'distinct_nontrivial': nontriv,
           'rule': 'one evaluation = one operation sequence replayed on one (backend, key set, value set); distinct by hash of '
                   '(configuration, events); non-trivial = the contents changed in at least two steps',
           'exhaustive': False, 'named_deviations': devs,
           'configurations': len(combos), 'backends': sorted({c[0] for c in combos}),
           'model_checking': {'layer_I_runs': mcs, 'behaviours': len(behaviours), 'generation_states': gen_states},
           'trace_validation': {'traces': len(traces), 'events': st['events'], 'rejected_events': nrej,
                                'wall_s': round(st['wall'], 1), 'replay_wall_s': round(t_replay, 1)}}
    return cov, [
        'keys come from nine key sets (plain strings, the aliasing pairs 1/"1" and "a-b"/"a_b", tuples, ints, and keys produced by '
        'klepto\'s own pickle/hash/string/raw keymaps); a backend only gets key sets it accepts (JSON: strings; sqlite: scalars)',
        'values per encoding: ints everywhere; nested containers with floats incl. inf, bytes, None and functions for pickled '
        'encodings; JSON-representable values for JSON; literals (and inf) for source text; str/float/bytes/int for sqlite; one '
        'unencodable value (an object whose __reduce__ raises)',
        'three locations of one archive type under different names in one directory / database; copy(name) once per sequence',
        'HDF5 and sqlalchemy backends cannot be constructed offline; memory-mapped directory archives need numpy (absent)']


def replay(pid, path):
    case = json.load(open(path))['case']
    wd = common.scratch('dict-replay1')
    t = _replay_one((case['backend'], case['keyset'], case['valset'], case['ops'], os.path.join(wd, 'r')))
    verdicts, _ = common.validate_traces('DictTrace', [{k: t[k] for k in ('cfg', 'init', 'events')}], [pid])
    if verdicts[0] is None:
        print('replay: accepted on the current tree')
        return common.EXIT_OK
    print('VIOLATION property=%s replay=%s' % (pid, path))
    print('  clauses: %s at event %d: %s' % (verdicts[0][1], verdicts[0][0], json.dumps(t['events'][verdicts[0][0] - 1])[:600]))
    return common.EXIT_VIOLATION

"""./check <ID> [--tier quick|thorough] [--replay FILE]"""
import argparse
import os
import sys
import traceback

from . import common


ENGINES = {
    'cache': ('harness.cache_checks', ['C01', 'C02', 'C05', 'C06', 'C07', 'C15', 'C16', 'C18', 'C20']),
    'store': ('harness.store_checks', ['C08']),
    'key': ('harness.key_checks', ['C09', 'C10', 'C11', 'C17']),
    'valid': ('harness.valid_checks', ['C19']),
    'round': ('harness.round_checks', ['C12']),
    'dict': ('harness.dict_checks', ['C03']),
    'persist': ('harness.persist_checks', ['C04']),
    'fs': ('harness.fs_checks', ['C13', 'C14']),
}


def engine_for(pid):
    for name, (mod, props) in ENGINES.items():
        if pid in props:
            return mod
    return None


def main(argv=None):
    try:        # developer aid: `kill -USR1 <pid>` prints the stack of every thread (inherited by forked workers)
        import faulthandler
        import signal
        faulthandler.register(signal.SIGUSR1, all_threads=True)
    except Exception:
        pass
    ap = argparse.ArgumentParser()
    ap.add_argument('pid')
    ap.add_argument('--tier', default=os.environ.get('VERIF_TIER', 'quick'), choices=['quick', 'thorough'])
    ap.add_argument('--replay')
    a = ap.parse_args(argv)
    modname = engine_for(a.pid)
    if modname is None:
        sys.stderr.write('no check for %s\n' % a.pid)
        return common.EXIT_MACHINERY
    import importlib
    mod = importlib.import_module(modname)
    try:
        if a.replay:
            return mod.replay(a.pid, a.replay)
        return mod.main(a.pid, a.tier)
    except common.MachineryError as e:
        sys.stderr.write('MACHINERY FAILURE (%s): %s\n' % (a.pid, e))
        return common.EXIT_MACHINERY
    except Exception:
        sys.stderr.write('MACHINERY FAILURE (%s):\n%s\n' % (a.pid, traceback.format_exc()))
        return common.EXIT_MACHINERY


if __name__ == '__main__':
    sys.exit(main())

"""B1 recorder for the cache family: runs operation sequences on real klepto decorators and
records one event per public operation (at its return, error path included) together with the
projected abstract state of every instance and every archive.

The recorder never judges anything: traces are validated by TLC against specs/CacheP.tla.
"""
import itertools
import os
import random

from . import common, stubs

ALGS = ['no', 'inf', 'lfu', 'lru', 'mru', 'rr']

# argument alphabet: arg id -> entry (args, kwargs, received (x, y), key class, kind, expected real value)
def alphabet(nx=4, safe=False, unkey=None, variant='plain'):
    """variant 'plain'   : stub f(x, y=0), key class = (x, y)
       variant 'ignore_y': decorated with ignore=('y',); stub value does not depend on y
       variant 'ignore_1': decorated with ignore=(1,) (the positional index of y)
       variant 'tol0'    : decorated with tol=0; stub value depends on round(x) only
       variant 'tol1'    : decorated with tol=1; stub t(x, y=0.125) has a float default that is never passed
    Normal bindings use x in stubs.XS[:nx] (one of them negative, results of several types incl. None)."""
    E = []
    xs = stubs.XS[:nx]

    def add(args, kw, recv, cls, kind='ok'):
        if variant == 'eqtypes':
            val = stubs._evalue(recv[0])
        elif variant == 'mixed':
            val = stubs._mvalue(recv[0])
        elif variant == 'long':
            val = stubs._lvalue(recv[0])
        elif variant == 'frac':
            val = ('frac', recv[0])
        elif variant == 'falsykey':
            val = stubs._zvalue(args)
        elif variant in ('plain', 'builtin'):
            val = stubs._value(*recv)
        elif variant == 'big':
            val = stubs._bvalue(*recv)
        elif variant in ('ignore_y', 'ignore_1', 'ignore_w'):
            val = stubs._value(recv[0], 0)
        else:
            val = stubs._value(int(round(recv[0])), 0)
        E.append({'args': args, 'kw': kw, 'recv': recv, 'cls': cls, 'kind': kind, 'expect': val})
    if variant in ('plain', 'big'):      # (big: the same calls, results of a few hundred KB)
        for x in xs:
            add((x,), {}, (x, 0), (x, 0))
        add((1, 0), {}, (1, 0), (1, 0))
        add((), {'x': 2}, (2, 0), (2, 0))
        add((), {'y': 0, 'x': 1}, (1, 0), (1, 0))
        add((7,), {}, (7, 0), (7, 0), 'raise')
        add((8,), {}, (8, 0), (8, 0), 'raise')
    elif variant == 'eqtypes':    # 1, 1.0, True, ...: equal values of different types are DIFFERENT calls for a keymap that keeps types
        es = stubs.EQTYPES[:nx]
        for n, x in enumerate(es):
            add((x,), {}, (x, 0), (n, 'e'))
        add((es[0], 0), {}, (es[0], 0), (0, 'e'))
        add((), {'x': es[1]}, (es[1], 0), (1, 'e'))
        add((), {'y': 0, 'x': es[0]}, (es[0], 0), (0, 'e'))
        add((7,), {}, (7, 0), (7, 0), 'raise')
        add((8,), {}, (8, 0), (8, 0), 'raise')
    elif variant == 'falsykey':   # z(*args) called with one argument or none: the keys are 0, '', 1, 2, (), b''
        zs = stubs.FALSY[:nx]
        for n, x in enumerate(zs):
            add((x,), {}, (x, 0), (n, 'z'))
        add((), {}, ('none', 0), (4, 'z'))
        add((b'',), {}, (b'', 0), (5, 'z'))
        add((zs[0],), {}, (zs[0], 0), (0, 'z'))
        add((7,), {}, (7, 0), (7, 0), 'raise')
        add((8,), {}, (8, 0), (8, 0), 'raise')
    elif variant == 'builtin':    # getattr(Probe(x), 'val'): an un-inspectable callable, positional arguments only
        for x in xs:
            add((stubs.Probe(x), 'val'), {}, (x, 0), (x, 0))
        add((stubs.Probe(1), 'val'), {}, (1, 0), (1, 0))
        add((stubs.Probe(2), 'val'), {}, (2, 0), (2, 0))
        add((stubs.Probe(1), 'val'), {}, (1, 0), (1, 0))
        add((stubs.Probe(7), 'val'), {}, (7, 0), (7, 0), 'raise')
        add((stubs.Probe(8), 'val'), {}, (8, 0), (8, 0), 'raise')
    elif variant == 'mixed':      # values of mutually unorderable types in one position
        ms = stubs.MIXED[:nx]
        for n, x in enumerate(ms):
            add((x,), {}, (x, 0), (n, 'm'))
        add((ms[0], 0), {}, (ms[0], 0), (0, 'm'))
        add((), {'x': ms[1]}, (ms[1], 0), (1, 'm'))
        add((), {'y': 0, 'x': ms[0]}, (ms[0], 0), (0, 'm'))
        add((7,), {}, (7, 0), (7, 0), 'raise')
        add((8,), {}, (8, 0), (8, 0), 'raise')
    elif variant == 'long':       # long strings that agree on their first 270 characters
        L = stubs.LONGP
        for x in xs:
            add((L + str(x),), {}, (L + str(x), 0), (x, 0))
        add((L + '1', 0), {}, (L + '1', 0), (1, 0))
        add((), {'x': L + '2'}, (L + '2', 0), (2, 0))
        add((), {'y': 0, 'x': L + '1'}, (L + '1', 0), (1, 0))
        add((7,), {}, (7, 0), (7, 0), 'raise')
        add((8,), {}, (8, 0), (8, 0), 'raise')
    elif variant == 'ignore_w':    # def w(x, why=0) decorated with ignore='why' (a bare string of several characters)
        for x in xs:
            add((x,), {}, (x, 0), (x,))
        add((1, 5), {}, (1, 5), (1,))
        add((), {'x': 2, 'why': 9}, (2, 9), (2,))
        add((), {'why': 3, 'x': 1}, (1, 3), (1,))
        add((7, 2), {}, (7, 2), (7,), 'raise')
        add((8,), {}, (8, 0), (8,), 'raise')
    elif variant in ('ignore_y', 'ignore_1'):
        for x in xs:
            add((x,), {}, (x, 0), (x,))
        add((1, 5), {}, (1, 5), (1,))
        add((), {'x': 2, 'y': 9}, (2, 9), (2,))
        add((), {'y': 3, 'x': 1}, (1, 3), (1,))
        add((7, 2), {}, (7, 2), (7,), 'raise')
        add((8,), {}, (8, 0), (8,), 'raise')
    elif variant == 'tol0':
        for x in xs:
            add((float(x),), {}, (float(x), 0), (x,))
        add((1.2,), {}, (1.2, 0), (1,))
        add((), {'x': 1.8}, (1.8, 0), (2,))
        add((0.9, 0), {}, (0.9, 0), (1,))
        add((7.0,), {}, (7.0, 0), (7,), 'raise')
        add((8.0,), {}, (8.0, 0), (8,), 'raise')
    elif variant == 'frac':       # no rounding configured: nearby floats are DIFFERENT calls
        for n, x in enumerate(xs):
            add((x + 0.4,), {}, (x + 0.4, 0), (n, 'a'))
        add((float(xs[0]),), {}, (float(xs[0]), 0), (0, 'b'))
        add((), {'x': float(xs[1])}, (float(xs[1]), 0), (1, 'b'))
        add((xs[0] + 0.4, 0), {}, (xs[0] + 0.4, 0), (0, 'a'))
        add((7.0,), {}, (7.0, 0), (7,), 'raise')
        add((8.0,), {}, (8.0, 0), (8,), 'raise')
    elif variant == 'tol1':
        for x in xs:
            add((float(x),), {}, (float(x), 0.125), (x,))
        add((1.04,), {}, (1.04, 0.125), (1,))
        add((), {'x': 1.96}, (1.96, 0.125), (2,))
        add((0.98,), {}, (0.98, 0.125), (1,))
        add((7.0,), {}, (7.0, 0.125), (7,), 'raise')
        add((8.0,), {}, (8.0, 0.125), (8,), 'raise')
    else:
        raise ValueError(variant)
    if safe and unkey is not None:
        E.append({'args': (unkey,), 'kw': {}, 'recv': (unkey, 0), 'cls': None, 'kind': 'unkey',
                  'expect': stubs._value(unkey, 0)})
        # ... and one for which the function raises (a list cannot carry the marker: an instance of a marked class)
        cls = type(unkey) if not isinstance(unkey, list) else stubs.BadRepr
        bad = type('Raising' + cls.__name__, (cls,), {'klepto_verif_raises': True, '__module__': stubs.__name__})()
        E.append({'args': (bad,), 'kw': {}, 'recv': (bad, 0), 'cls': None, 'kind': 'unkeyraise', 'expect': None})
    return E


def same_value(a, b):
    return type(a) is type(b) and a == b


def make_keymap(klepto, spec):
    """spec = (kind, flat, typed, extra) with kind in raw/hash-md5/hash-sha1/str/repr-pickle/pickle/dill"""
    if spec[0] == 'default':
        return None
    kind, flat, typed = spec[0], spec[1], spec[2]
    sentinel = spec[3] if len(spec) > 3 else None
    km = klepto.keymaps
    kw = dict(flat=flat, typed=typed)
    if sentinel:
        kw['sentinel'] = km.SENTINEL
    if kind == 'raw':
        return km.keymap(**kw)
    if kind == 'hash':
        return km.hashmap(**kw)
    if kind.startswith('hash-'):
        return km.hashmap(algorithm=kind[5:], **kw)
    if kind == 'str':
        return km.stringmap(**kw)
    if kind == 'str-repr':
        return km.stringmap(encoding='repr', **kw)
    if kind == 'pickle-repr':
        return km.picklemap(**kw)
    if kind == 'pickle':
        return km.picklemap(serializer='pickle', **kw)
    if kind == 'dill':
        return km.picklemap(serializer='dill', **kw)
    if kind == 'raw-fastfloat':        # a rarely used customisation: floats and tuples count as "fast" (bare) keys too
        return km.keymap(fasttypes=(int, str, float, type(None)), **kw)
    if kind == 'str-sorted':           # another one: a custom `sorted` for the keyword items
        return km.stringmap(sorted=lambda items: sorted(items, reverse=True), **kw)
    if kind == 'chain-str-sha1':       # a + b encodes with b, then passes the key through a
        return km.stringmap(**kw) + km.hashmap(algorithm='sha1', **kw)
    if kind == 'chain-md5-pickle':
        return km.hashmap(algorithm='md5', **kw) + km.picklemap(serializer='pickle', **kw)
    if kind == 'default':
        return None
    raise ValueError(kind)


def keymap_hashable(spec):
    """does the keymap produce hashable keys for f(x, y=0)?  raw/non-flat keys contain a dict."""
    return not (spec[0] == 'raw' and not spec[1])


SETTINGS = {
    'dir-json': ('dir', '', dict(protocol='json')),
    'dir-compressed': ('dir', '', dict(compression=3)),
    'dir-proto2': ('dir', '', dict(protocol=2)),
    'file-proto2': ('file', '.pkl', dict(protocol=2)),
}


class Slot(object):
    """one archive location/object observed by the recorder"""
    def __init__(self, kind, obj, loc=None):
        self.kind, self.obj, self.loc = kind, obj, loc
        self.handles = [obj]

    def contents(self):
        try:
            return dict(self.obj.items())
        except Exception as e:  # an unreadable archive is reported as a marker key
            return {('__unreadable__', type(e).__name__): -1}


class Recorder(object):
    def __init__(self, cfg, workdir):
        self.klepto = common.import_klepto()
        self.cfg = dict(cfg)
        self.workdir = workdir
        self.safe = cfg['module'] == 'safe'
        self.mod = self.klepto.safe if self.safe else self.klepto
        self.kmspec = tuple(cfg.get('keymap', ('default',)))
        unkey = None
        if self.safe and cfg.get('unkey'):
            eff = self.kmspec[0]
            kind = cfg.get('unkey')
            if eff in ('raw', 'hash') and kind in (True, 'type'):
                unkey = [1]                  # unhashable: fails in the keymap or at the dict lookup
            else:
                # cannot be encoded by str/repr/pickle/named hash, nor hashed: TypeError, ValueError, AttributeError, ...
                unkey = stubs.BAD_BY_KIND.get(kind, stubs.BadRepr)()
        self.variant = cfg.get('variant', 'plain')
        self.args = alphabet(cfg.get('nx', 4), self.safe, unkey, self.variant)
        self.funcs = {'plain': stubs.FUNCS, 'builtin': stubs.UFUNCS, 'falsykey': stubs.ZFUNCS, 'big': stubs.BFUNCS, 'eqtypes': stubs.EFUNCS, 'mixed': stubs.MFUNCS, 'long': stubs.LFUNCS, 'ignore_w': stubs.WFUNCS, 'frac': stubs.QFUNCS, 'ignore_y': stubs.GFUNCS, 'ignore_1': stubs.GFUNCS, 'tol0': stubs.HFUNCS,
                      'tol1': stubs.TFUNCS}[self.variant]
        if cfg.get('stacked'):
            # what is decorated is itself a klepto-decorated function (one that keeps nothing: no_cache without an archive
            # evaluates the stub on every call), i.e. two klepto decorators are stacked; instance i is the OUTER one
            self.funcs = [self.klepto.no_cache()(fn) for fn in self.funcs]
        if cfg.get('aspartial'):
            # the decorated callable is a functools.partial of the stub that presets nothing: same calls, same values
            import functools
            self.funcs = [functools.partial(fn) for fn in self.funcs]
        self.ni = cfg.get('ni', 1)
        self.na = cfg.get('na', 2)
        self.slots = []
        self.inst = [None] * self.ni      # wrapped functions
        self.icfg = [None] * self.ni
        self.table = []                   # (real key, key id)
        self.nk = None
        self.events = []
        self.init = None
        self.notes = []

    # ---- construction -----------------------------------------------------------------
    def _new_archive(self, backend, tag):
        """returns (cache object to hand to the decorator, slot or None)"""
        A = self.klepto.archives
        w = self.workdir
        if backend == 'plain':
            return None, None
        if backend == 'null':
            return A.null_archive('n' + tag, cached=True), None
        if backend == 'dictarch':
            c = A.dict_archive('d' + tag, cached=True)
            return c, Slot('dictarch', c.archive)
        if backend == 'file':
            path = os.path.join(w, 'F%s.pkl' % tag)
            c = A.file_archive(path, cached=True)
            return c, Slot('file', c.archive, path)
        if backend == 'file-json':
            path = os.path.join(w, 'F%s.json' % tag)
            c = A.file_archive(path, cached=True, protocol='json')
            return c, Slot('file', c.archive, path)
        if backend == 'dir':
            path = os.path.join(w, 'D%s' % tag)
            c = A.dir_archive(path, cached=True)
            return c, Slot('dir', c.archive, path)
        if backend == 'sql':
            path = os.path.join(w, 'S%s.db' % tag)
            c = A.sqltable_archive('sqlite:///%s?table=memo' % path, cached=True)
            return c, Slot('sql', c.archive, path)
        if backend in SETTINGS:
            # persistent archives with non-default settings (they must survive copies, pickling and re-decoration)
            fam, ext, kw = SETTINGS[backend]
            path = os.path.join(w, '%s%s%s' % (backend.replace('-', '_').upper(), tag, ext))
            c = getattr(A, fam + '_archive')(path, cached=True, **kw)
            s = Slot(fam, c.archive, path)
            s.settings = kw
            return c, s
        if backend == 'flaky':
            base = self.klepto._archives.dict_archive

            class FlakyArchive(base):
                """an in-memory archive whose next write can be made to fail (fault injection for C07)"""
                fail_next = 0

                def _maybe_fail(self):
                    if self.fail_next > 0:
                        self.fail_next -= 1
                        raise OSError('injected archive write failure')

                fail_read_next = 0

                def __getitem__(self, k):
                    if self.fail_read_next > 0:
                        self.fail_read_next -= 1
                        raise OSError('injected archive read failure')
                    return base.__getitem__(self, k)

                def __setitem__(self, k, v):
                    self._maybe_fail()
                    base.__setitem__(self, k, v)

                def update(self, *a, **kw):
                    self._maybe_fail()
                    base.update(self, *a, **kw)
            arch = FlakyArchive()
            c = A.cache(archive=arch)
            return c, Slot('flaky', arch)
        if backend == 'direct-dict':
            c = A.dict_archive('dd' + tag, cached=False)
            return c, None
        if backend == 'direct-file':
            c = A.file_archive(os.path.join(w, 'DF%s.pkl' % tag), cached=False)
            return c, None
        if backend == 'direct-dir':
            c = A.dir_archive(os.path.join(w, 'DD%s' % tag), cached=False)
            return c, None
        raise ValueError(backend)

    def _rebind(self, slot):
        """a fresh cache over the same archive (same object in memory, new handle when persistent)"""
        A = self.klepto.archives
        if slot is None:
            return None
        if slot.kind == 'dictarch':
            return self.klepto.archives.cache(archive=slot.obj)
        if getattr(slot, 'settings', None) is not None:
            c = getattr(A, slot.kind + '_archive')(slot.loc, cached=True, **slot.settings)
        elif slot.kind == 'file':
            c = A.file_archive(slot.loc, cached=True)
        elif slot.kind == 'dir':
            c = A.dir_archive(slot.loc, cached=True)
        elif slot.kind == 'sql':
            c = A.sqltable_archive('sqlite:///%s?table=memo' % slot.loc, cached=True)
        slot.handles.append(c.archive)
        return c

    def _decorator_args(self, icfg, cache):
        cls = getattr(self.mod, icfg['alg'] + '_cache')
        kw = {}
        pos = []
        ms = icfg.get('maxsize', 'default')
        if ms != 'default':
            if icfg.get('how', 'kw') == 'pos':
                pos.append(ms)
            else:
                kw['maxsize'] = ms
        if cache is not None:
            kw['cache'] = cache
        km = make_keymap(self.klepto, self.kmspec)
        if km is not None:
            kw['keymap'] = km
        if icfg.get('purge') is not None and icfg['alg'] not in ('no', 'inf'):
            kw['purge'] = icfg['purge']
        if self.variant == 'ignore_y':
            kw['ignore'] = ('y',)
        elif self.variant == 'ignore_1':
            kw['ignore'] = (1,)
        elif self.variant == 'ignore_w':
            kw['ignore'] = 'why'         # a single name, not wrapped in a tuple
        elif self.variant == 'tol0':
            kw['tol'] = 0
        elif self.variant == 'tol1':
            kw['tol'] = 1
        return cls, pos, kw

    @staticmethod
    def effective(icfg):
        """effective algorithm / maxsize (-1 = None) as the documentation promises"""
        alg, ms = icfg['alg'], icfg.get('maxsize', 'default')
        if alg == 'no':
            return 'no', 0
        if alg == 'inf':
            return 'inf', -1
        if ms == 'default':
            ms = 100
        if ms is None:
            return 'inf', -1
        if ms == 0:
            return 'no', 0
        return alg, ms

    # ---- projection ---------------------------------------------------------------------
    def _keyid(self, real):
        for r, k in self.table:
            try:
                if type(r) is type(real) and (r == real or (isinstance(r, tuple) and repr(r) == repr(real))):
                    return k       # (klepto.NULL does not survive pickling as an equal object)
            except Exception:
                pass
        return None

    def code(self, k):
        return 1000 + 10 * k

    def _project(self, d):
        """real dict -> sequence over key ids; a value is reported by the CODE of its key class when it is the
        expected result of that class (rich real values: int, float, str, None, tuple), else as -9;
        unknown keys are reported in slot nk (the last)"""
        out = [0] * self.nk
        for rk, v in d.items():
            k = self._keyid(rk)
            if k is None:
                out[self.nk - 1] = -7
            elif k in self.expect and same_value(v, self.expect[k]):
                out[k - 1] = self.code(k)
            else:
                out[k - 1] = -9
        return out

    def ret_code(self, a, r):
        ent = self.args[a - 1]
        if same_value(r, ent['expect']):
            return 1410 if ent['kind'] == 'unkey' else self.code(self.bindings.index(ent['cls']) + 1)
        return -5

    def _slot_of(self, archive_obj):
        for n, s in enumerate(self.slots, 1):
            if any(h is archive_obj for h in s.handles):
                return n
        # a handle we have not seen (e.g. created by unpickling): match by location
        st = getattr(archive_obj, '__state__', {})
        for n, s in enumerate(self.slots, 1):
            if s.loc is not None and s.kind in type(archive_obj).__name__ and \
                    os.path.abspath(str(st.get('id', ''))) == os.path.abspath(s.loc):
                s.handles.append(archive_obj)
                return n
            if s.kind == 'sql' and 'sql' in type(archive_obj).__name__ and s.loc in str(st.get('root', '')):
                s.handles.append(archive_obj)
                return n
        kind = 'dictarch' if 'dict' in type(archive_obj).__name__ else 'other'
        self.slots.append(Slot(kind, archive_obj))
        return len(self.slots)

    def snapshot(self):
        mem, cur, info = [], [], []
        for f in self.inst:
            if f is None:
                mem.append([0] * self.nk)
                cur.append(0)
                info.append([0, 0, 0, 0, 0])
                continue
            c = f.__cache__()
            try:
                if isinstance(c, self.klepto.archives.cache):
                    d = dict(dict.items(c))
                else:
                    d = dict(c.items())
            except Exception as e:
                d = {('__unreadable__', type(e).__name__): -1}
            mem.append(self._project(d))
            if c.archived():
                cur.append(self._slot_of(c.archive))
            else:
                cur.append(0)
            i = f.info()
            info.append([i.hit, i.miss, i.load, -1 if i.maxsize is None else i.maxsize, i.size])
        archs = []
        for n in range(self.na):
            if n < len(self.slots):
                archs.append(self._project(self.slots[n].contents()))
            else:
                archs.append([0] * self.nk)
        if len(self.slots) > self.na:
            self.notes.append('more archive slots than na')
        return {'mem': mem, 'cur': cur, 'info': info, 'archs': archs}

    # ---- operations -----------------------------------------------------------------------
    def _emit(self, ev, mark):
        new = stubs.LOG[mark:]
        if '_own' in ev:
            new = new[:ev.pop('_own')]
        evs = []
        for (name, x, y) in new:
            a = ev.get('a')
            ent = self.args[a - 1] if a is not None else None
            if ent is not None and ent['kind'] not in ('unkey', 'unkeyraise') and ent['recv'] == (x, y) \
                    and type(ent['recv'][0]) is type(x):
                evs.append(a)
            elif ent is not None and ent['kind'] in ('unkey', 'unkeyraise') and x is ent['recv'][0]:
                evs.append(a)
            else:
                evs.append(99)
        ev['ev'] = evs
        if 'mirror' in ev:
            prev = self.events[-1] if self.events else {}
            ev['mret'] = prev.get('ret', 0)
            ev['mexc'] = prev.get('exc', 'none')
        ev.setdefault('ret', 0)
        ev.setdefault('exc', 'none')
        ev.update(self.snapshot())
        self.events.append(ev)
        return ev

    def decorate(self, i, icfg, backend=None, rebind_slot=None, first=False):
        """create instance i (1-based)"""
        mark = len(stubs.LOG)
        ev = {'op': 'decorate', 'i': i}
        # archive / keymap construction failures are recorder (machinery) problems, not verdicts
        if rebind_slot is not None:
            cache = self._rebind(self.slots[rebind_slot - 1])
        else:
            cache, slot = self._new_archive(backend, str(i))
            if slot is not None:
                self.slots.append(slot)
        cls, pos, kw = self._decorator_args(icfg, cache)
        try:
            dec = cls(*pos, **kw)
            f = dec(self.funcs[i - 1])
            if self.cfg.get('reuse'):
                dec(stubs.other_function)        # the same decorator object decorates a second function (never called)
            if self.cfg.get('sibling'):
                # ... and a sibling stub with the same signature and the same values, which op 'sibcall' calls
                if not hasattr(self, 'sib'):
                    self.sib = {}
                self.sib[i] = dec(self.funcs[i % len(self.funcs)])
            f.info()
            self.inst[i - 1] = f
            self.icfg[i - 1] = icfg
        except Exception as e:
            ev['exc'] = type(e).__name__
            self.inst[i - 1] = None
            self.icfg[i - 1] = icfg
        if self.nk is None:
            self._build_table()
        if first:
            self.init = self._init_state()
        return self._emit(ev, mark)

    def _init_state(self):
        return {'mem': [[0] * self.nk for _ in range(self.ni)], 'cur': [0] * self.ni,
                'info': [[0, 0, 0, 0, 0] for _ in range(self.ni)],
                'archs': [[0] * self.nk for _ in range(self.na)]}

    def _build_table(self):
        """real key <-> key id, learned from f.key() on the first instance (C18 checks that key()
        is the storage key; C09/C10 check canonicalisation and discrimination on their own)"""
        bindings = []
        for ent in self.args:
            if ent['kind'] not in ('unkey', 'unkeyraise') and ent['cls'] not in bindings:
                bindings.append(ent['cls'])
        self.bindings = bindings
        self.nk = len(bindings) + 1          # last id collects unknown keys
        self.expect = {}
        for ent in self.args:
            if ent['kind'] == 'ok':
                self.expect[bindings.index(ent['cls']) + 1] = ent['expect']
        f = self.inst[0]
        self.table = []
        self.keyable = True
        if f is None:
            return
        for n, ent in enumerate(self.args, 1):
            if ent['kind'] in ('unkey', 'unkeyraise'):
                continue
            try:
                rk = f.key(*ent['args'], **ent['kw'])
                hash(rk)
            except Exception as e:
                self.keyable = False
                self.notes.append('key() failed for arg %d: %s' % (n, type(e).__name__))
                continue
            k = bindings.index(ent['cls']) + 1
            known = self._keyid(rk)
            if known is None:
                self.table.append((rk, k))
            elif known != k:
                self.notes.append('key collision between key classes %d and %d' % (known, k))
                self.keyable = False

    def tla_cfg(self):
        keyof, fvals, kinds = [], [], []
        fk = [-1] * self.nk
        for ent in self.args:
            kinds.append(ent['kind'])
            if ent['kind'] == 'unkeyraise':
                keyof.append(1)
                fvals.append(0)
            elif ent['kind'] == 'unkey':
                keyof.append(1)
                fvals.append(1410)
            else:
                k = self.bindings.index(ent['cls']) + 1
                keyof.append(k)
                fvals.append(self.code(k) if ent['kind'] == 'ok' else 0)
                if ent['kind'] == 'ok':
                    fk[k - 1] = self.code(k)
        inst = []
        for ic in self.icfg:
            ic = ic or {'alg': 'inf'}
            alg, ms = self.effective(ic)
            inst.append({'alg': alg, 'maxsize': ms, 'purge': bool(ic.get('purge')), 'safe': self.safe})
        return {'nk': self.nk, 'na': self.na, 'ni': self.ni, 'keyof': keyof, 'f': fvals, 'kind': kinds,
                'fk': fk, 'inst': inst}

    def op(self, o):
        """o = dict(op=..., i=..., ...) -> event"""
        name = o['op']
        i = o.get('i', 1)
        if getattr(self, '_skip', None) is not None:
            skip, self._skip = self._skip, None
            if all(o.get(k) == v for k, v in skip.items()) and 'mirror' not in o:
                return None
        f = self.inst[i - 1]
        mark = len(stubs.LOG)
        ev = dict(o)
        ev['i'] = i
        if name == 'decorate':
            return self.decorate(i, o['icfg'], o.get('backend'), o.get('rebind'))
        if f is None:
            return None
        try:
            if name == 'call':
                ent = self.args[o['a'] - 1]
                a, kw = ent['args'], ent['kw']
                stubs.LAST_EXC[0] = None
                ev.pop('rfault', None)
                if o.get('rfault') and self.events:
                    # a one-shot READ failure of the bound archive, armed only when this call would be answered from the
                    # archive (its key is archived and not resident): the event is then tagged "rfault"
                    c = f.__cache__()
                    prev = self.events[-1]
                    k = self.bindings.index(ent['cls']) + 1 if ent['kind'] not in ('unkey', 'unkeyraise') else None
                    cur = prev['cur'][i - 1]
                    if k is not None and cur and hasattr(c.archive, 'fail_read_next') and c.archived() \
                            and prev['mem'][i - 1][k - 1] == 0 and prev['archs'][cur - 1][k - 1] != 0:
                        c.archive.fail_read_next = 1
                        ev['rfault'] = True
                if o.get('nest'):
                    # recursion: while f(a) is being evaluated the wrapped function calls the decorated function again;
                    # every nested call completes - and is recorded - before this one
                    nest = list(o['nest'])
                    ev.pop('nest')

                    def during():
                        for n in nest:
                            self.op(dict(n, op='call', i=i))
                    stubs.DURING[0] = during
                if o.get('snap'):
                    # dill round trip taken by ANOTHER thread while this call is inside the wrapped function:
                    # the clone event is emitted first (state as observed at that moment), then this call's event
                    stubs.DURING[0] = lambda: self._inflight_clone(i, o['snap'])
                try:
                    r = f(*a, **kw)
                    ev['ret'] = self.ret_code(o['a'], r)
                except BaseException as e:
                    ev['exc'] = 'same' if e is stubs.LAST_EXC[0] else type(e).__name__
                if ev.get('rfault'):
                    f.__cache__().archive.fail_read_next = 0
                if o.get('nest'):
                    pending, stubs.DURING[0] = stubs.DURING[0], None
                    if pending is None:
                        ev['_own'] = 1           # this call's own evaluation is the first one logged since `mark`
                if o.get('snap'):
                    pending, stubs.DURING[0] = stubs.DURING[0], None
                    ev.pop('snap')
                    if pending is not None:      # the call never reached the function: take an ordinary snapshot afterwards
                        self._emit(ev, mark)         # (the copy then already contains this call: its catch-up call is dropped)
                        r = self.op({'op': 'clone', 'i': i, 'j': o['snap']})
                        self._skip = {'op': 'call', 'a': o['a'], 'i': o['snap']}
                        return r
            elif name == 'lookup':
                ent = self.args[o['a'] - 1]
                a, kw = ent['args'], ent['kw']
                try:
                    r = f.lookup(*a, **kw)
                    ev['ret'] = self.ret_code(o['a'], r)
                except KeyError:
                    ev['exc'] = 'KeyError'
            elif name == 'key':
                ent = self.args[o['a'] - 1]
                a, kw = ent['args'], ent['kw']
                rk = f.key(*a, **kw)
                k = self._keyid(rk)
                ev['ret'] = k if k is not None else -1
            elif name == 'load':
                f.load()
            elif name == 'loadk':
                f.load(*[self._real(k) for k in o['keys']])
            elif name == 'dump':
                f.dump()
            elif name == 'dumpk':
                f.dump(*[self._real(k) for k in o['keys']])
            elif name == 'sync':
                f.__cache__().sync(clear=bool(o.get('clear')))
                ev['clear'] = bool(o.get('clear'))
            elif name == 'clear':
                if o.get('keep'):
                    f.clear(keepstats=True)
                else:
                    f.clear()
                ev['keep'] = bool(o.get('keep'))
            elif name == 'arch_off':
                f.archived(False)
            elif name == 'arch_on':
                f.archived(True)
            elif name == 'set_archive':
                if o['x'] == 0:
                    f.archive(self.klepto._archives.null_archive())      # the archive is replaced by the null archive
                else:
                    f.archive(self.slots[o['x'] - 1].obj)
            elif name == 'arm_fault':
                c = f.__cache__()
                if c.archived() and hasattr(c.archive, 'fail_next'):
                    c.archive.fail_next = 1
            elif name == 'info':
                f.info()
            elif name == 'wrapped':
                ev['ret'] = 1 if f.__wrapped__ is self.funcs[i - 1] else 0
            elif name == 'sibcall':
                ent = self.args[o['a'] - 1]
                try:
                    getattr(self, 'sib', {})[i](*ent['args'], **ent['kw'])
                except BaseException:
                    pass             # (what the sibling does is its own business: only f's account is judged)
            elif name == 'clone':
                import dill
                j = o['j']
                g = dill.loads(dill.dumps(f))
                self.inst[j - 1] = g
                self.icfg[j - 1] = self.icfg[i - 1]
            else:
                raise ValueError(name)
        except Exception as e:
            if ev.get('exc', 'none') == 'none':
                ev['exc'] = type(e).__name__
        return self._emit(ev, mark)

    def _inflight_clone(self, i, j):
        import threading
        import dill
        box = {}

        # (sqlite connections may only be used in the thread that opened them: a copy that is backed by the sqlite
        # archive is restored by the thread that goes on to use it; every other copy by the snapshotting thread)
        here = any(s.kind == 'sql' for s in self.slots)

        def work():
            try:
                box['blob'] = dill.dumps(self.inst[i - 1])
                if not here:
                    box['g'] = dill.loads(box['blob'])
            except BaseException as e:
                box['exc'] = type(e).__name__
        t = threading.Thread(target=work)
        t.daemon = True
        t.start()
        t.join(30)
        if here and 'blob' in box and not t.is_alive():
            try:
                box['g'] = dill.loads(box['blob'])
            except BaseException as e:
                box['exc'] = type(e).__name__
        ev = {'op': 'clone', 'i': i, 'j': j, 'inflight': True}
        if t.is_alive():
            ev['exc'] = 'Blocked'
        elif 'exc' in box:
            ev['exc'] = box['exc']
        else:
            self.inst[j - 1] = box['g']
            self.icfg[j - 1] = self.icfg[i - 1]
        self._emit(ev, len(stubs.LOG))

    def _real(self, k):
        for r, kk in self.table:
            if kk == k:
                return r
        raise KeyError(k)

    def trace(self):
        return {'cfg': self.tla_cfg(), 'init': self.init, 'events': self.events,
                'meta': {'config': _jsonable(self.cfg), 'notes': self.notes}}


def _jsonable(x):
    if isinstance(x, dict):
        return {str(k): _jsonable(v) for k, v in x.items()}
    if isinstance(x, (list, tuple)):
        return [_jsonable(v) for v in x]
    if isinstance(x, (int, str, bool, float)) or x is None:
        return x
    return repr(x)


STALL_S = float(os.environ.get('VERIF_STALL_S', '40'))
_blocked_seen = [0]       # per worker process: after two blocked sequences the patience for further ones is short


def run_sequence(cfg, ops, workdir):
    """cfg: module, alg, maxsize, how, purge, backend, keymap, nx, ni, na, unkey
    ops: list of op dicts (instance 1 is decorated first automatically).  Returns a trace dict or
    None when the configuration cannot be keyed at all (reported in meta).

    The whole sequence runs in ONE helper thread while the caller watches it: an operation of the library that
    blocks for ever (no event, no evaluation for STALL_S seconds) is recorded as an event with exc = "Blocked"
    instead of hanging the check; the sequence ends there."""
    import threading
    del stubs.LOG[:]
    stubs.RAISE7[0] = stubs.RAISE_KINDS[cfg.get('raise7', 'StubError')]
    r = Recorder(cfg, workdir)
    icfg = {'alg': cfg['alg'], 'maxsize': cfg.get('maxsize', 'default'), 'how': cfg.get('how', 'kw'),
            'purge': cfg.get('purge')}
    state = {'cur': None, 'err': None, 'n': 0}

    def body():
        try:
            r.decorate(1, icfg, cfg.get('backend', 'plain'), first=True)
            for o in ops:
                if state.get('abandoned'):
                    return
                o = dict(o)
                if o['op'] == 'decorate' and 'icfg' not in o:
                    o['icfg'] = icfg
                while o['op'] == 'set_archive' and o['x'] > len(r.slots):
                    # create further archives on demand (in-memory dict archives)
                    c, slot = r._new_archive('dictarch', 'x%d' % (len(r.slots) + 1))
                    r.slots.append(slot)
                if r.inst[0] is None:
                    break
                state['cur'] = o
                state['n'] += 1
                r.op(o)
                state['cur'] = None
        except BaseException as e:      # recorder failure: re-raised in the caller
            state['err'] = e

    t = threading.Thread(target=body)
    t.daemon = True
    t.start()
    last, since = None, 0.0
    while True:
        t.join(0.5 if since < 2 else 5.0)
        if not t.is_alive():
            break
        progress = (state['n'], len(r.events), len(stubs.LOG))
        if progress != last:
            last, since = progress, 0.0
        else:
            since += 0.5 if since < 2 else 5.0
        if since >= (STALL_S if _blocked_seen[0] < 2 else 6.0):
            _blocked_seen[0] += 1
            state['abandoned'] = True
            o = state['cur'] or {'op': 'decorate', 'i': 1}
            prev = r.events[-1] if r.events else None
            if prev is None or r.nk is None:
                raise common.MachineryError('the library blocked before the first event of %r' % (cfg,))
            ev = dict(o)
            ev['i'] = o.get('i', 1)
            ev.update({'ret': 0, 'exc': 'Blocked', 'ev': []})
            if 'mirror' in ev:
                ev['mret'], ev['mexc'] = prev.get('ret', 0), prev.get('exc', 'none')
            if ev['op'] == 'clear':
                ev['keep'] = bool(o.get('keep'))
            for k in ('mem', 'cur', 'info', 'archs'):
                ev[k] = prev[k]
            ev.pop('snap', None)
            r.events.append(ev)
            r.notes.append('operation %d blocked for more than %ss' % (state['n'], STALL_S))
            break
    if state['err'] is not None:
        raise state['err']
    t = r.trace()
    t['meta']['ops'] = _jsonable(ops)
    return t


# ---------------------------------------------------------------------------------------------
# operation sequence generators (python side; the TLC-generated behaviours come from CacheImpl)
# ---------------------------------------------------------------------------------------------

def random_ops(rng, n, cfg, nargs, profile='mixed'):
    ops = []
    archived = cfg.get('backend', 'plain') not in ('plain', 'null') and not cfg.get('backend', '').startswith('direct')
    normal = [a for a in range(1, nargs + 1)]
    for _ in range(n):
        r = rng.random()
        if profile == 'calls' or r < 0.62:
            ops.append({'op': 'call', 'a': rng.choice(normal)})
        elif r < 0.70:
            ops.append({'op': 'lookup', 'a': rng.choice(normal[:7])})
        elif r < 0.74:
            ops.append({'op': 'key', 'a': rng.choice(normal[:7])})
        elif r < 0.78:
            ops.append({'op': 'dump'})
        elif r < 0.81 and profile != 'nobulk':
            ops.append({'op': 'load'})
        elif r < 0.84:
            ops.append({'op': 'clear', 'keep': rng.random() < 0.4})
        elif r < 0.87 and archived:
            ops.append({'op': 'arch_off'})
        elif r < 0.91 and archived:
            ops.append({'op': 'arch_on'})
        elif r < 0.93 and profile != 'nobulk':
            ops.append({'op': 'loadk', 'keys': sorted(rng.sample([1, 2, 3], rng.randint(1, 2)))})
        elif r < 0.95:
            ops.append({'op': 'dumpk', 'keys': sorted(rng.sample([1, 2, 3], rng.randint(1, 2)))})
        elif r < 0.955 and profile == 'setarch':
            ops.append({'op': 'set_archive', 'x': rng.choice([1, 2])})
        elif r < 0.965 and archived and profile in ('setarch', 'mixed'):
            ops.append({'op': 'sync', 'clear': rng.random() < 0.5})
        elif r < 0.97:
            ops.append({'op': 'info'})
        else:
            ops.append({'op': 'call', 'a': rng.choice(normal)})
    return ops

"""Engine `fs`: properties C13 (crash atomicity of archive writes) and C14 (concurrent processes).

Specifications: specs/FsP.tla (layer P: what a fresh process may see after a kill; what concurrent operations may
return), specs/DirFS.tla and specs/FileFS.tla (layer I: one action per file-system call of every dir_archive /
file_archive operation, Kill between any two calls, processes interleaving call by call; named deviations).

C13  1. TLC checks layer I + Kill against the C13 clauses for every scenario, with no deviation (must hold) and with
        the deviations that describe the current code (counterexamples are candidates).
     2. Every scenario runs on a real worker process (harness/fs_worker.py); its real system-call sequence is
        recorded with strace; then the worker is killed on entry to its 1st, 2nd, ... last file-system call
        (strace -e inject=<call>:signal=SIGKILL:when=<m>, attached after the prior contents were built, so only the
        operation's own calls count), and at synthesized partial writes; a fresh process reports what it sees.
     3. TLC judges every (contents, operation, view) triple (specs/FsTrace.tla).
C14  see check_C14 below (stepping controller).
"""
import glob
import json
import os
import random
import re
import shutil
import subprocess
import time
from concurrent.futures import ThreadPoolExecutor

from . import common

NK = 2
FS_SET = 'mkdir,openat,write,close,unlink,unlinkat,rmdir,rename,renameat,renameat2,sendfile,copy_file_range,ftruncate,truncate,link,linkat'
SQL_SET = 'openat,write,pwrite64,fdatasync,fsync,ftruncate,unlink,unlinkat,rename,close'
ALL_BACKENDS = ['file', 'dir', 'sql-file', 'file-json', 'dir-json', 'file-py', 'dir-py', 'dir-fast', 'dir-compressed']
# the deviations that describe the code as it is now (kept in step with the fix: commits; see DESIGN.md)
CURRENT_DIR = {'asdict_keyerror_escapes'}
CURRENT_FILE = {'file_open_rewrites', 'file_items_rereads'}
CURRENT_SQL = {'items_select_per_key'}


def O(t, k=1, v=0, k2=1, v2=0):
    return {'t': t, 'k': k, 'v': v, 'k2': k2, 'v2': v2}


# scenario id (as in DirFS / FileFS Scenario) -> (initial contents, operation)
CRASH_SCEN = {
    1: ([0, 0], O('set', 1, 11)),
    2: ([10, 20], O('set', 1, 11)),
    3: ([10, 20], O('del', 1)),
    4: ([10, 20], O('pop', 1)),
    5: ([10, 20], O('clear')),
    6: ([10, 0], O('update', 1, 11, 2, 21)),
    7: ([10, 20], O('open')),
    8: ([10, 0], O('dump', 1, 11, 2, 21)),
    9: ([0, 20], O('set', 1, 11)),
    # further mapping methods (judged by layer P; layer I has no program for them)
    10: ([0, 20], O('setdefault', 1, 11)),
    11: ([10, 20], O('setdefault', 1, 11)),
    12: ([10, 20], O('popkeys', 1, 0, 2, 0)),
    13: ([10, 20], O('popitem')),
    # the operating handle has cleared the archive once before (state a handle may keep across operations)
    14: ([10, 20], dict(O('del', 1), preclear=True)),
    15: ([10, 20], dict(O('clear'), preclear=True)),
    16: ([10, 20], dict(O('set', 1, 11), preclear=True)),
}


def family(backend):
    return backend.split('-')[0] if not backend.startswith('sql') else 'sql'


def cfg_text(consts, invariants, view='View'):
    lines = ['SPECIFICATION Spec', 'CONSTANTS']
    for k, v in consts.items():
        lines.append('  %s = %s' % (k, '{}' if isinstance(v, (set, frozenset)) and not v else common.tla_value(v)))
    lines += ['INVARIANT %s' % i for i in invariants]
    if view:
        lines.append('VIEW %s' % view)
    lines.append('CHECK_DEADLOCK FALSE')
    return '\n'.join(lines) + '\n'


def tlc_model(module, scen, crash, devs, work, inv):
    p = os.path.join(work, '%s-%d-%s-%s.cfg' % (module, scen, 'c' if crash else 'n', common.trace_hash(sorted(devs))))
    open(p, 'w').write(cfg_text(dict(NK=NK, SCEN=scen, CRASH=crash, Deviations=set(devs)), [inv]))
    r = common.run_tlc(module, p, workdir=work, workers=2, timeout=900, heap='2g')
    res = {'module': module, 'scenario': scen, 'crash': crash, 'deviations': sorted(devs), 'generated': r.generated,
           'distinct': r.distinct, 'violated': r.violated}
    if r.violated:
        lab = re.findall(r'<<(\d+), "([\w-]+)">>', r.out[r.out.rfind('sched ='):])
        res['counterexample_schedule'] = [[int(a), b] for a, b in lab]
    elif not r.ok:
        raise common.MachineryError('%s run failed:\n%s' % (module, r.out[-2500:]))
    return res


# ---------------------------------------------------------------------------------------------
# real processes under strace
# ---------------------------------------------------------------------------------------------

def worker_env():
    env = dict(os.environ)
    env['PYTHONPATH'] = common.VERIF
    env['PYTHONDONTWRITEBYTECODE'] = '1'
    env['PYTHONHASHSEED'] = '0'
    tmp = common.other_fs_tmp()
    if tmp:
        env['TMPDIR'] = tmp      # the system's temporary directory is on another file system than the archives
    return env


_CALL = re.compile(r'^\d+\s+(\w+)\((.*)$')


def parse_strace(text):
    calls = []
    for line in text.splitlines():
        m = _CALL.match(line)
        if not m or '+++' in line or '--- SIG' in line:
            continue
        calls.append((m.group(1), m.group(2)))
    return calls


def role(args):
    if '.db-journal' in args or '.db-wal' in args:
        return 'journal'
    if '.db' in args:
        return 'db'
    if '.I_' in args:
        return 'staging'
    if 'K_' in args or 'arch.' in args or 'archsrc' in args:
        return 'final'
    if 'archdir"' in args or args.startswith('"%s' % '/') and args.rstrip().endswith('ENOTEMPTY (Directory not empty)'):
        return 'root'
    return 'other'


def view_of(backend, wd, keys):
    # (os.renames() prunes empty parent directories of its source: an operation that empties the archive's root can take
    # the working directory with it - the viewer then opens the location like any later session would)
    os.makedirs(wd, exist_ok=True)
    r = subprocess.run([common.PY, '-m', 'harness.fs_worker', common.REPO, backend, wd, 'view', json.dumps({'keys': keys})],
                       capture_output=True, text=True, env=worker_env(), cwd=wd, timeout=900)
    try:
        return json.loads(r.stdout.strip().splitlines()[-1])
    except Exception:
        raise common.MachineryError('viewer failed: %s %s' % (r.stdout[-300:], r.stderr[-600:]))


def run_op(backend, keys, init, op, wd, kill=None):
    """run one operation on a real worker; kill = (syscall name, m): SIGKILL on entry to its m-th invocation.
    returns (return code, result or None, strace calls)"""
    shutil.rmtree(wd, True)
    os.makedirs(wd)
    spec = {'init': init, 'op': op, 'keys': keys, 'preclear': bool(op.get('preclear'))}
    w = subprocess.Popen([common.PY, '-m', 'harness.fs_worker', common.REPO, backend, wd, 'op', json.dumps(spec)],
                         stdin=subprocess.PIPE, stdout=subprocess.PIPE, stderr=subprocess.PIPE, text=True, env=worker_env(), cwd=wd)
    line = w.stdout.readline()
    if line.strip() != 'ready':
        w.kill()
        raise common.MachineryError('fs worker did not get ready: %s' % w.stderr.read()[-800:])
    log = wd + '.strace'
    sset = SQL_SET if backend.startswith('sql') else FS_SET
    cmd = ['strace', '-f', '-p', str(w.pid), '-o', log, '-e', 'trace=' + sset]
    if kill:
        cmd += ['-e', 'inject=%s:signal=SIGKILL:when=%d' % kill]
    s = subprocess.Popen(cmd, stderr=subprocess.PIPE, text=True)
    att = s.stderr.readline()
    if 'attached' not in att:
        w.kill()
        s.kill()
        raise common.MachineryError('strace did not attach: %s' % att)
    try:
        w.stdin.write('go\n')
        w.stdin.flush()
    except OSError:
        pass
    out = w.stdout.readline()
    rc = w.wait(timeout=900)
    s.wait(timeout=300)
    for f in (w.stdin, w.stdout, w.stderr, s.stderr):
        try:
            f.close()
        except Exception:
            pass
    calls = parse_strace(open(log).read()) if os.path.exists(log) else []
    try:
        os.remove(log)
    except OSError:
        pass
    res = None
    if out.strip():
        try:
            res = json.loads(out)
        except ValueError:
            res = None
    return rc, res, calls


def crash_case(job):
    """one kill run -> list of trace dicts (the kill itself, plus partial-write variants)"""
    backend, keys, sid, init, op, idx, name, m, args, wd, partial = job
    rc, res, calls = run_op(backend, keys, init, op, wd, kill=(name, m))
    out = []
    window = args.endswith('\x00WINDOW')
    args = args.replace('\x00WINDOW', '')
    site = '%s:%s' % (name, role(args))

    def trace(view, part):
        return {'events': [{'kind': 'crash', 'single': backend.startswith('file'), 'M': init, 'ops': [op], 'res': [], 'view': view}],
                'meta': {'backend': backend, 'keys': keys, 'scenario': sid, 'op': op, 'init': init, 'kill_index': idx, 'kill': [name, m],
                         'site': site, 'partial': part, 'killed': rc == -9, 'call': '%s(%s' % (name, args[:140]),
                         'overwrite_window': window}}
    out.append(trace(view_of(backend, wd, keys), 0))
    if partial and rc == -9:
        # the kill arrived on entry to the call AFTER a write to a staging file: truncating that file is what a kill
        # in the middle of the write leaves behind
        files = [f for f in glob.glob(os.path.join(wd, '**', '*'), recursive=True) if os.path.isfile(f) and '.I_' in f]
        for f in files:
            size = os.path.getsize(f)
            for keep in sorted({size - 1, size // 2, 1}, reverse=True):
                if 0 < keep < size:
                    with open(f, 'r+b') as fh:
                        fh.truncate(keep)
                    out.append(trace(view_of(backend, wd, keys), keep))
    shutil.rmtree(wd, True)
    return out


def overwrite_window(calls):
    """per call index (1-based): is a kill on entry to that call inside the known overwrite window of dir_archive -
    after the old entry was renamed away and before the (already fully written) staging directory is renamed into
    place?  The staging directory must have been written BEFORE the old entry was moved."""
    flags = [False] * (len(calls) + 1)
    written = False          # a write to a staging file since the last rename into place
    away = None
    for i, (name, args) in enumerate(calls, 1):
        if away is not None:
            flags[i] = True
        if name == 'write' and not args.startswith('1,'):
            if away is not None:
                # staging is (re)written while the old entry is already gone: not the known window
                for j in range(away + 1, i + 1):
                    flags[j] = False
                away = None
            written = True
        elif name == 'rename':
            parts = args.split('", "')
            src, dst = parts[0], parts[1] if len(parts) > 1 else ''
            if '.I_' in dst and '.I_' not in src:            # final -> staging name: the old entry moves away
                away = i if written else None
            elif '.I_' in src and '.I_' not in dst:          # staging -> final: the new entry is in place
                away = None
                written = False
    return flags


def crash_jobs(backend, keys, sid, init, op, root, counter):
    """uninjected run under strace -> the operation's call sequence -> one job per crash point"""
    wd = os.path.join(root, 'base%d' % next(counter))
    rc, res, calls = run_op(backend, keys, init, op, wd)
    if rc != 0 or res is None:
        raise common.MachineryError('uninjected run failed for %s %s: rc=%s' % (backend, op, rc))
    view = view_of(backend, wd, keys)
    shutil.rmtree(wd, True)
    # the last call is the worker's own write of its result to stdout: a kill there is a kill after the operation
    seen = {}
    jobs = []
    prev_write_to_staging = False
    win = overwrite_window(calls) if backend.startswith('dir') else [False] * (len(calls) + 1)
    for idx, (name, args) in enumerate(calls, 1):
        seen[name] = seen.get(name, 0) + 1
        partial = prev_write_to_staging
        jobs.append((backend, keys, sid, init, op, idx, name, seen[name], args + ('\x00WINDOW' if win[idx] else ''),
                     os.path.join(root, 'k%d' % next(counter)), partial))
        prev_write_to_staging = name == 'write' and not args.startswith('1,') and not backend.startswith('sql')
    return jobs, {'result': res, 'view': view, 'calls': ['%s:%s' % (n, role(a)) for n, a in calls]}


def signature(t, v, pid):
    m = t['meta']
    return {'engine': 'fs', 'kind': t['events'][0]['kind'], 'clauses': v[1], 'backend': m['backend'], 'family': family(m['backend']),
            'op': m['op']['t'] if 'op' in m else None, 'site': m.get('site'), 'partial': bool(m.get('partial')),
            'keys': m.get('keys'), 'killed': m.get('killed'), 'overwrite_window': bool(m.get('overwrite_window'))}


def check_C13(tier):
    pid = 'C13'
    rep = common.Report(pid, tier)
    thorough = tier == 'thorough'
    work = common.scratch('fs')
    mcs = []
    devs = {}
    # layer I: idealised must hold; the code as it is now (its named deviations) gives candidates
    jobs = []
    for sid in range(1, 8):
        for module, cur in (('DirFS', CURRENT_DIR), ('FileFS', CURRENT_FILE), ('SqlFS', CURRENT_SQL)):
            jobs.append((module, sid, True, set(), work, 'AtomicOK'))
            jobs.append((module, sid, True, cur, work, 'AtomicOK'))
    with ThreadPoolExecutor(max_workers=8) as ex:
        for r in ex.map(lambda j: tlc_model(*j), jobs):
            mcs.append(r)
            if r['violated'] and not r['deviations']:
                rep.note_drift('layer I (%s scenario %d) violates C13 with no deviation enabled: %s'
                               % (r['module'], r['scenario'], r.get('counterexample_schedule')))
            if r['deviations']:
                devs['%s-%d' % (r['module'], r['scenario'])] = {'counterexample_found': r['violated'],
                                                                'schedule': r.get('counterexample_schedule')}
    # real runs
    backends = ALL_BACKENDS if thorough else ALL_BACKENDS[:3]
    rng = random.Random(common.seed() + 13)
    if not thorough:
        # the source-text archives always (their entries are read back through the import system, and the names of
        # staging directories meet that encoding), plus one of the remaining configurations
        backends = backends + ['dir-py', 'file-py'] + [rng.choice([b for b in ALL_BACKENDS[3:] if b not in ('dir-py', 'file-py')])]
    root = common.scratch('fs-crash')
    import itertools
    counter = itertools.count()
    plans = []
    for b in backends:
        keysets = ['str'] + (['tuple'] if b in ('dir', 'file', 'dir-fast', 'dir-compressed') and (thorough or b == 'dir') else [])
        # 'big': values that span many pages of the database / many write() calls (a commit of several pages, a long copy)
        keysets += ['big'] if b in ('sql-file', 'file', 'dir') and (thorough or b == 'sql-file') else []
        for keys in keysets:
            for sid, (init, op) in sorted(CRASH_SCEN.items()):
                if not thorough and b not in ALL_BACKENDS[:3] and sid not in (2, 3, 7, 11, 14):
                    continue
                if keys == 'big' and sid not in ((2, 6, 8) if thorough else (2, 8)):
                    continue
                plans.append((b, keys, sid, init, op))
    t0 = time.time()
    all_jobs = []
    bases = []
    with ThreadPoolExecutor(max_workers=common.NCPU) as ex:
        for (jobs_, base), pl in zip(ex.map(lambda p: crash_jobs(p[0], p[1], p[2], p[3], p[4], root, counter), plans), plans):
            all_jobs += jobs_
            bases.append({'backend': pl[0], 'keys': pl[1], 'scenario': pl[2], 'op': pl[4], 'calls': base['calls'], 'result': base['result']})
            if not base['result']['ok']:
                raise common.MachineryError('operation failed without a kill: %s %s' % (pl, base['result']))
    traces = []
    with ThreadPoolExecutor(max_workers=common.NCPU) as ex:
        for ts in ex.map(crash_case, all_jobs):
            traces += ts
    t_run = time.time() - t0
    verdicts, st = common.validate_traces('FsTrace', [{'events': t['events']} for t in traces], [pid])
    nrej = 0
    for t, v in zip(traces, verdicts):
        if v is None:
            continue
        nrej += 1
        rep.reject(signature(t, v, pid), dict(t['meta'], clauses=v[1], view=t['events'][0]['view']))
    killed = sum(1 for t in traces if t['meta']['killed'])
    sites = sorted({t['meta']['site'] for t in traces})
    distinct = len({(t['meta']['backend'], t['meta']['keys'], t['meta']['scenario'], t['meta']['kill_index'], t['meta']['partial']) for t in traces if t['meta']['killed']})
    s0 = next((t for t in traces if t['meta']['backend'] == 'dir' and t['meta']['scenario'] == 2 and t['meta']['killed']), traces[0])
    sample = {'backend': s0['meta']['backend'], 'contents_before': s0['meta']['init'], 'operation': s0['meta']['op'],
              'killed_on_entry_to': s0['meta']['call'], 'fresh_process_sees': s0['events'][0]['view'],
              'call_sequence_of_the_operation': next(b['calls'] for b in bases if b['backend'] == s0['meta']['backend'] and b['scenario'] == s0['meta']['scenario'])}
    cov = {'states': sum(m['distinct'] for m in mcs) + st['states'],
           'transitions': sum(m['generated'] for m in mcs) + st['events'],
           'traces_validated_against_impl': len(traces), 'samples': [sample],
           'evaluations': len(traces), 'distinct_nontrivial': distinct,
           'rule': 'one evaluation = one real run of one operation on one archive configuration killed on entry to one of its '
                   'file-system calls (or a partial write synthesized at a write to a staging file), followed by a fresh process '
                   'reporting its view; distinct_nontrivial = distinct (configuration, scenario, crash point) where the worker was '
                   'really killed',
           'exhaustive': True, 'crash_points_killed': killed, 'kill_sites': sites,
           'scenarios': [{'id': k, 'contents_before': v[0], 'operation': v[1]} for k, v in sorted(CRASH_SCEN.items())],
           'backends': backends, 'layer_I_vs_code_as_it_is': devs,
           'model_checking': {'layer_I_runs': mcs},
           'trace_validation': {'traces': len(traces), 'rejected': nrej, 'wall_s': round(st['wall'], 1), 'run_wall_s': round(t_run, 1)}}
    return rep.finish('fault_enumeration', cov, [
        'process kill (SIGKILL on entry to the call: the call does not happen), not power loss: what completed write(2) calls wrote '
        'is visible afterwards; fsync ordering is out of scope',
        'crash points are the operation\'s own file-system calls, counted from a strace attached after the prior contents were built; '
        'the set is mkdir/openat/write/close/unlink(at)/rmdir/rename for file and directory archives and '
        'openat/write/pwrite64/fdatasync/fsync/ftruncate/unlink/rename/close for the sqlite file',
        'two keys; operations: set new, overwrite, delete, pop, clear, update of two keys, dump from a cache, opening an existing archive',
        'HDF5 and sqlalchemy backends cannot be constructed offline'])


# ---------------------------------------------------------------------------------------------
# C14: real processes stepped through TLC-generated schedules
# ---------------------------------------------------------------------------------------------

# scenario id (as in DirFS / FileFS / SqlFS Scenario) -> (initial contents, operations)
CONC_SCEN = {
    11: ([0, 0], [O('set', 1, 11), O('set', 2, 21)]),
    12: ([10, 0], [O('set', 2, 21), O('get', 1)]),
    13: ([10, 0], [O('set', 2, 21), O('keys')]),
    14: ([10, 0], [O('set', 2, 21), O('items')]),
    15: ([10, 0], [O('set', 2, 21), O('len')]),
    16: ([10, 0], [O('set', 1, 11), O('get', 1)]),
    17: ([10, 0], [O('set', 1, 11), O('items')]),
    18: ([10, 20], [O('del', 1), O('items')]),
    19: ([10, 0], [O('set', 1, 11), O('contains', 1)]),
    20: ([10, 0], [O('set', 2, 21), O('load')]),
    21: ([10, 20], [O('del', 1), O('set', 2, 21)]),
    22: ([0, 0], [O('set', 1, 11), O('set', 2, 21), O('items')]),
    23: ([10, 0], [O('set', 2, 21), O('open')]),
    24: ([10, 0], [O('set', 2, 21), O('open'), O('load')]),
    25: ([10, 0], [O('set', 1, 11), O('open')]),
    26: ([10, 20], [O('clear'), O('del', 2)]),
    27: ([0, 0], [O('set', 1, 11), O('set', 1, 12)]),
    28: ([10, 0], [O('set', 1, 11), O('set', 1, 12)]),
    # a membership test on a key with a history; that process then keeps its handle, idle, while another one stores another key
    29: ([10, 0], [O('contains', 1), O('set', 2, 21)]),
}
DIR_SCEN = [11, 12, 13, 14, 15, 16, 17, 18, 19, 20, 21, 22, 23, 25, 26, 27, 28, 29]
SQL_SCEN = DIR_SCEN
FILE_SCEN = [12, 13, 14, 15, 16, 18, 20, 23, 24, 29]      # (writer/writer is promised for directory and SQL archives only)


def conc_schedules(module, gen, scen, devs, maxsw, work):
    """all complete behaviours of layer I with at most `maxsw` context switches: (schedule, predicted results, predicted verdict)"""
    p = os.path.join(work, '%s-%d-sw%d.cfg' % (gen, scen, maxsw))
    lines = ['SPECIFICATION Spec', 'CONSTANTS', '  NK = %d' % NK, '  SCEN = %d' % scen, '  CRASH = FALSE',
             '  Deviations = %s' % common.tla_value(set(devs)) if devs else '  Deviations = {}', '  MAXSW = %d' % maxsw,
             'INVARIANT Emit', 'CONSTRAINT FewSwitches', 'CHECK_DEADLOCK FALSE']
    open(p, 'w').write('\n'.join(lines) + '\n')
    r = common.run_tlc(gen, p, workdir=work, workers=1, timeout=900, heap='2g')
    out = []
    for m in re.finditer(r'<<"SCHED", "(.*)">>', r.out):
        out.append(json.loads(m.group(1).replace('\\"', '"')))
    if not out:
        raise common.MachineryError('%s produced no schedule for scenario %d:\n%s' % (gen, scen, r.out[-1500:]))
    return out, r.distinct, r.generated


class Stepped(object):
    """a worker process parked before each of its file-system calls"""
    def __init__(self, backend, keys, init, op, wd, noinit):
        # history: the initial entries have been overwritten once (a sqlite table keeps a row per store, a directory entry
        # has been replaced); linger: a process that has finished its operation keeps its handle and stays alive, idle
        spec = {'init': init, 'op': op, 'keys': keys, 'noinit': noinit, 'history': True, 'linger': True, 'rseed': 20260929}
        self.p = subprocess.Popen([common.PY, '-m', 'harness.fs_worker', common.REPO, backend, wd, 'step', json.dumps(spec)],
                                  stdin=subprocess.PIPE, stdout=subprocess.PIPE, stderr=subprocess.PIPE, text=True, env=worker_env(), cwd=wd)
        if self.p.stdout.readline().strip() != 'ready':
            raise common.MachineryError('stepped worker did not get ready: %s' % self.p.stderr.read()[-800:])
        self.pending = None      # label of the call it is parked at
        self.res = None
        self.trail = []
        self.started = False

    def _read(self):
        import select
        r, _, _ = select.select([self.p.stdout], [], [], 60)
        if not r:
            raise common.MachineryError('stepped worker made no progress in 60 s (trail %s)' % self.trail[-6:])
        line = self.p.stdout.readline()
        if line.startswith('AT '):
            self.pending = line[3:].strip()
        elif line.startswith('RES '):
            self.res = json.loads(line[4:])
            self.pending = None
        else:
            raise common.MachineryError('stepped worker said %r / %s' % (line, self.p.stderr.read()[-800:]))

    def start(self):
        self.p.stdin.write('go\n')
        self.p.stdin.flush()
        self.started = True
        self._read()

    def done(self):
        return self.res is not None

    def step(self):
        """release the call it is parked at; returns that call's label"""
        lab = self.pending
        self.trail.append(lab)
        self.p.stdin.write('go\n')
        self.p.stdin.flush()
        self._read()
        return lab

    def close(self):
        try:
            self.p.kill()
        except Exception:
            pass
        for f in (self.p.stdin, self.p.stdout, self.p.stderr):
            try:
                f.close()
            except Exception:
                pass
        try:
            self.p.wait(timeout=10)
        except Exception:
            pass


class SteppedFork(Stepped):
    """child i of a forkstep launcher (all children share the one archive object the launcher created)"""
    def __init__(self, wd, i):
        ctl = os.path.join(wd, '.ctl')

        class P(object):
            pass
        self.p = P()
        self.p.stdin = open(os.path.join(ctl, 'in%d' % i), 'w')
        self.p.stdout = open(os.path.join(ctl, 'out%d' % i), 'r')
        self.p.stderr = open(os.devnull)
        self.p.kill = lambda: None
        self.p.wait = lambda timeout=None: 0
        if self.p.stdout.readline().strip() != 'ready':
            raise common.MachineryError('forked stepped worker did not get ready')
        self.pending = None
        self.res = None
        self.trail = []
        self.started = False


def start_workers(backend, keys, init, ops, wd, shared):
    if not shared:
        return [Stepped(backend, keys, init, op, wd, noinit=i > 0) for i, op in enumerate(ops)], None
    ctl = os.path.join(wd, '.ctl')
    os.makedirs(ctl)
    for i in range(1, len(ops) + 1):
        os.mkfifo(os.path.join(ctl, 'in%d' % i))
        os.mkfifo(os.path.join(ctl, 'out%d' % i))
    spec = {'init': init, 'ops': ops, 'keys': keys}
    launcher = subprocess.Popen([common.PY, '-m', 'harness.fs_worker', common.REPO, backend, wd, 'forkstep', json.dumps(spec)],
                                stdin=subprocess.PIPE, stdout=subprocess.PIPE, stderr=subprocess.PIPE, text=True, env=worker_env(), cwd=wd)
    if launcher.stdout.readline().strip() != 'forked':
        raise common.MachineryError('fork launcher failed: %s' % launcher.stderr.read()[-800:])
    return [SteppedFork(wd, i) for i in range(1, len(ops) + 1)], launcher


def solo_steps(backend, keys, init, op, wd):
    """the scheduling points one operation has when it runs alone on the current code"""
    shutil.rmtree(wd, True)
    os.makedirs(wd)
    w = Stepped(backend, keys, init, op, wd, noinit=False)
    try:
        w.start()
        while not w.done():
            w.step()
        return list(w.trail)
    finally:
        w.close()
        shutil.rmtree(wd, True)


def order_schedules(counts, maxsw, work):
    """TLC (specs/Interleave.tla): every interleaving of processes taking counts[i] steps, with <= maxsw context switches"""
    c = list(counts) + [0] * (3 - len(counts))
    p = os.path.join(work, 'il-%d-%d-%d-sw%d.cfg' % (c[0], c[1], c[2], maxsw))
    open(p, 'w').write('SPECIFICATION Spec\nCONSTANTS\n  S1 = %d\n  S2 = %d\n  S3 = %d\n  MAXSW = %d\nINVARIANT Emit\n'
                       'CONSTRAINT FewSwitches\nCHECK_DEADLOCK FALSE\n' % (c[0], c[1], c[2], maxsw))
    r = common.run_tlc('Interleave', p, workdir=work, workers=1, timeout=600, heap='2g')
    out = [json.loads(m.group(1).replace('\\"', '"'))['order'] for m in re.finditer(r'<<"ORDER", "(.*)">>', r.out)]
    if not out:
        raise common.MachineryError('Interleave produced nothing: %s' % r.out[-800:])
    return out, r.distinct, r.generated


def run_schedule(job):
    backend, keys, sid, init, ops, sched, wd, predicted = job[:8]
    shared = len(job) > 8 and job[8]
    shutil.rmtree(wd, True)
    os.makedirs(wd)
    ws = []
    launcher = None
    try:
        ws, launcher = start_workers(backend, keys, init, ops, wd, shared)
        for w in ws:
            w.start()
        order = []
        for idx, x in enumerate(sched):
            if isinstance(x, int):             # order mode: one real step of that process
                if not ws[x - 1].done():
                    order.append([x, ws[x - 1].step()])
                # the last scheduled step of a process: it now runs to its end (it may have more scheduling points than in
                # its solo run, e.g. because it meets what the other process has left half-done)
                if x not in sched[idx + 1:]:
                    while not ws[x - 1].done():
                        order.append([x, ws[x - 1].step()])
                continue
            p, lab = x
            if lab.startswith('end') or lab == 'KILL':
                continue
            w = ws[p - 1]
            for _ in range(8):                 # calls of the real process the model does not have are passed over
                if w.done():
                    break
                got = w.step()
                order.append([p, got])
                if got == lab:
                    break
        while any(not w.done() for w in ws):   # whatever is left, round-robin
            for i, w in enumerate(ws, 1):
                if not w.done():
                    order.append([i, w.step()])
        res = [w.res for w in ws]
    except common.MachineryError as ex:
        return {'error': str(ex), 'meta': {'backend': backend, 'scenario': sid}}
    finally:
        for w in ws:
            w.close()
        if launcher is not None:
            try:
                launcher.wait(timeout=20)
            except Exception:
                launcher.kill()
            for f in (launcher.stdin, launcher.stdout, launcher.stderr):
                try:
                    f.close()
                except Exception:
                    pass
    view = view_of(backend, wd, keys)
    shutil.rmtree(wd, True)
    rr = [{'ok': r['ok'], 'exc': r['exc'], 'i': r['i'], 'm': r['m']} for r in res]
    return {'events': [{'kind': 'conc', 'single': backend.startswith('file'), 'M': init, 'ops': ops, 'res': rr, 'view': view}],
            'meta': {'backend': backend, 'keys': keys, 'scenario': sid, 'init': init, 'ops': ops, 'schedule': sched, 'real_order': order,
                     'results': res, 'model_predicts_violation': bool(predicted), 'shared_handle': bool(shared)}}


def conc_signature(t, v):
    m = t['meta']
    return {'engine': 'fs', 'kind': 'conc', 'clauses': v[1], 'backend': m['backend'], 'family': family(m['backend']),
            'ops': [o['t'] for o in m['ops']], 'same_key': len({o['k'] for o in m['ops'] if o['t'] in ('set', 'del', 'pop', 'get', 'contains')}) == 1,
            'excs': sorted({r['exc'] for r in m['results'] if not r['ok']}),
            'overwrite': any(o['t'] in ('set', 'update', 'dump') and m['init'][o['k'] - 1] != 0 for o in m['ops']),
            'removal': any(o['t'] in ('del', 'pop', 'clear') for o in m['ops']),
            'opener': any(o['t'] == 'open' for o in m['ops']), 'shared_handle': bool(m.get('shared_handle'))}


def check_C14(tier):
    pid = 'C14'
    rep = common.Report(pid, tier)
    thorough = tier == 'thorough'
    work = common.scratch('fs14')
    rng = random.Random(common.seed() + 14)
    mcs = []
    devs = {}
    # layer I, all interleavings (state graph): idealised must hold; the code as it is gives candidates
    jobs = []
    for sid in DIR_SCEN:
        jobs.append(('DirFS', sid, False, set(), work, 'ConcOK'))
        jobs.append(('DirFS', sid, False, CURRENT_DIR, work, 'ConcOK'))
    # the code as it WAS (fix 75f86c2): staging names from the global random generator, seeded alike in both processes
    for sid in (11, 21, 27):
        jobs.append(('DirFS', sid, False, {'staging_name_shared'}, work, 'ConcOK'))
    for sid in FILE_SCEN:
        jobs.append(('FileFS', sid, False, set(), work, 'ConcOK'))
        jobs.append(('FileFS', sid, False, CURRENT_FILE, work, 'ConcOK'))
    for sid in SQL_SCEN:
        jobs.append(('SqlFS', sid, False, set(), work, 'ConcOK'))
        jobs.append(('SqlFS', sid, False, CURRENT_SQL, work, 'ConcOK'))
    with ThreadPoolExecutor(max_workers=8) as ex:
        for r in ex.map(lambda j: tlc_model(*j), jobs):
            mcs.append(r)
            if r['violated'] and not r['deviations']:
                rep.note_drift('layer I (%s scenario %d) violates C14 with no deviation enabled' % (r['module'], r['scenario']))
            if r['deviations']:
                tag = '-staging_name_shared' if 'staging_name_shared' in r['deviations'] else ''
                devs['%s-%d%s' % (r['module'], r['scenario'], tag)] = {'counterexample_found': r['violated']}
    maxsw = 4 if thorough else 3
    plans = []
    gen_states = gen_trans = 0
    genjobs = [('DirFS', 'FsGen', sid, CURRENT_DIR) for sid in DIR_SCEN] + [('FileFS', 'FsGenFile', sid, CURRENT_FILE) for sid in FILE_SCEN] \
        + [('SqlFS', 'FsGenSql', sid, CURRENT_SQL) for sid in SQL_SCEN]
    with ThreadPoolExecutor(max_workers=8) as ex:
        gens = list(ex.map(lambda g: conc_schedules(g[0], g[1], g[2], g[3], maxsw if len(CONC_SCEN[g[2]][1]) < 3 else maxsw - 1, work), genjobs))
    root = common.scratch('fs-conc')
    jobs = []
    nsched = 0
    for (module, gen, sid, cur), (scheds, st, tr) in zip(genjobs, gens):
        gen_states += st
        gen_trans += tr
        nsched += len(scheds)
        init, ops = CONC_SCEN[sid]
        fam = {'DirFS': 'dir', 'FileFS': 'file', 'SqlFS': 'sql'}[module]
        backends = [b for b in ALL_BACKENDS if b.startswith(fam)]
        bad = [x for x in scheds if x['bad']]
        good = [x for x in scheds if not x['bad']]
        rng.shuffle(good)
        rng.shuffle(bad)
        pick = bad[:(40 if thorough else 6)] + good[:(60 if thorough else 6)]
        for n, x in enumerate(pick):
            bs = backends if thorough and n < 6 else [backends[0]] + ([backends[1 + (n + sid) % (len(backends) - 1)]] if n % 3 == 0 and len(backends) > 1 else [])
            for b in bs:
                # directory archives store keys that are not their own directory name (tuples, ints) with an input file
                # next to the output file: the schedules the model predicts to matter run with both kinds of key
                if b == 'dir' and (x['bad'] or thorough):
                    ksets = ['str', 'tuple']
                else:
                    ksets = ['tuple' if (b == 'dir' and n % 4 == 3) else 'str']
                for keys in ksets:
                    jobs.append((b, keys, sid, init, ops, x['sched'], os.path.join(root, 'c%d' % len(jobs)), x['bad']))
        # one archive object shared by forked children (multiprocessing 'fork'): a few schedules per writer/writer scenario
        if module == 'DirFS' and sid in (11, 21, 22):
            for n, x in enumerate(pick[:(12 if thorough else 4)]):
                jobs.append(('dir', 'tuple' if n % 2 else 'str', sid, init, ops, x['sched'], os.path.join(root, 'c%d' % len(jobs)), x['bad'], True))
    # schedules over the REAL scheduling points of each operation (measured in a solo run of the code under test):
    # every interleaving for the sqlite table (its points are SQL statements), a sample for the others
    solo_root = common.scratch('fs-solo')
    ojobs = []
    for sid in DIR_SCEN:
        init, ops = CONC_SCEN[sid]
        for b in ['sql-file', 'dir'] + (['file'] if sid in FILE_SCEN else []):
            ojobs.append((b, sid, init, ops))
    for sid in FILE_SCEN:
        if sid not in DIR_SCEN:
            init, ops = CONC_SCEN[sid]
            ojobs.append(('file', sid, init, ops))

    def plan_orders(oj):
        b, sid, init, ops = oj
        counts = [len(solo_steps(b, 'str', init, op, os.path.join(solo_root, 's-%s-%d-%d' % (b, sid, i)))) for i, op in enumerate(ops)]
        if b.startswith('sql'):
            sw = 9
        else:
            sw = 2 if not thorough else 3
        orders, st_, tr_ = order_schedules(counts, sw, work)
        return oj, counts, orders, st_, tr_
    with ThreadPoolExecutor(max_workers=8) as ex:
        oplans = list(ex.map(plan_orders, ojobs))
    for (b, sid, init, ops), counts, orders, st_, tr_ in oplans:
        gen_states += st_
        gen_trans += tr_
        nsched += len(orders)
        rng.shuffle(orders)
        cap = (200 if thorough else 12) if b.startswith('sql') else (40 if thorough else 3)
        ksets = ['str']
        if b == 'dir' and sid in (16, 17, 18, 19, 21, 23, 25, 27, 28):
            # an entry is replaced or removed while another process looks: EVERY placement of the other operation between
            # two real steps of the writer (all orders with at most two switches), for keys with and without an input file
            cap = max(cap, 40)
            ksets = ['str', 'tuple']
        for order in orders[:cap]:
            for keys in ksets:
                jobs.append((b, keys, sid, init, ops, order, os.path.join(root, 'c%d' % len(jobs)), False))
    t0 = time.time()
    with ThreadPoolExecutor(max_workers=max(2, common.NCPU // 2)) as ex:
        traces = list(ex.map(run_schedule, jobs))
    bad = [t for t in traces if 'error' in t]
    if bad:
        raise common.MachineryError('stepping controller failed (%d): %s' % (len(bad), bad[0]))
    t_run = time.time() - t0
    verdicts, st = common.validate_traces('FsTrace', [{'events': t['events']} for t in traces], [pid])
    nrej = 0
    agree = 0
    for t, v in zip(traces, verdicts):
        if (v is not None) == t['meta']['model_predicts_violation']:
            agree += 1
        if v is None:
            continue
        nrej += 1
        rep.reject(conc_signature(t, v), dict(t['meta'], clauses=v[1], view=t['events'][0]['view']))
    distinct = len({common.trace_hash([t['meta']['backend'], t['meta']['keys'], t['meta']['scenario'], t['meta']['real_order']]) for t in traces})
    s0 = next((t for t in traces if t['meta']['scenario'] == 14), traces[0])
    sample = {'backend': s0['meta']['backend'], 'contents_before': s0['meta']['init'], 'operations': s0['meta']['ops'],
              'interleaving_of_real_calls': s0['meta']['real_order'], 'results': s0['meta']['results'], 'fresh_process_sees': s0['events'][0]['view']}
    cov = {'states': sum(m['distinct'] for m in mcs) + gen_states + st['states'],
           'transitions': sum(m['generated'] for m in mcs) + gen_trans + st['events'],
           'traces_validated_against_impl': len(traces), 'samples': [sample],
           'evaluations': len(traces), 'distinct_nontrivial': distinct,
           'rule': 'one evaluation = one schedule (an interleaving of the file-system calls of two or three operations, generated by TLC '
                   'from layer I with a bound on context switches) executed by real processes parked before each of their calls; '
                   'distinct by hash of (configuration, scenario, real interleaving)',
           'exhaustive': False, 'schedules_generated': nsched, 'max_context_switches': maxsw,
           'model_and_code_agree_on': '%d of %d schedules' % (agree, len(traces)),
           'scenarios': [{'id': k, 'contents_before': v[0], 'operations': v[1]} for k, v in sorted(CONC_SCEN.items())],
           'layer_I_vs_code_as_it_is': devs, 'model_checking': {'layer_I_runs': mcs},
           'trace_validation': {'traces': len(traces), 'rejected': nrej, 'wall_s': round(st['wall'], 1), 'run_wall_s': round(t_run, 1)}}
    return rep.finish('model_checking', cov, [
        'processes, not threads; scheduling points: open, mkdir, rename, remove, rmdir, scandir/listdir (audit events) plus the first '
        'write and the close of a file opened for writing and os.path.exists (wrapped in the worker launcher); reads of an open file '
        'are taken together with its open',
        'sqlite: scheduling points are SQL statements; a data-changing statement and its commit are one step (the controller never '
        'parks a process inside a transaction, so it cannot itself cause "database is locked")',
        'two or three operations per schedule, two keys; schedules with a bounded number of context switches, all of those the model '
        'predicts to violate first',
        'HDF5 and sqlalchemy backends cannot be constructed offline'])


CHECKS = {'C13': check_C13, 'C14': check_C14}


def main(pid, tier):
    return CHECKS[pid](tier)


def replay(pid, path):
    case = json.load(open(path))['case']
    if pid == 'C13':
        wd = os.path.join(common.scratch('fs-replay'), 'r')
        job = (case['backend'], case['keys'], case['scenario'], case['init'], case['op'], case['kill_index'], case['kill'][0], case['kill'][1],
               '\x00WINDOW' if case.get('overwrite_window') else '', wd, bool(case['partial']))
        ts = crash_case(job)
        verdicts, _ = common.validate_traces('FsTrace', [{'events': t['events']} for t in ts], [pid])
        bad = [(t, v) for t, v in zip(ts, verdicts) if v is not None]
        if not bad:
            print('replay: accepted on the current tree')
            return common.EXIT_OK
        print('VIOLATION property=%s replay=%s' % (pid, path))
        print('  clauses: %s view: %s' % (bad[0][1][1], json.dumps(bad[0][0]['events'][0]['view'])))
        return common.EXIT_VIOLATION
    wd = os.path.join(common.scratch('fs-replay'), 'r')
    t = run_schedule((case['backend'], case['keys'], case['scenario'], case['init'], case['ops'], case['schedule'], wd,
                      case.get('model_predicts_violation'), case.get('shared_handle')))
    if 'error' in t:
        raise common.MachineryError(t['error'])
    verdicts, _ = common.validate_traces('FsTrace', [{'events': t['events']}], [pid])
    if verdicts[0] is None:
        print('replay: accepted on the current tree')
        return common.EXIT_OK
    print('VIOLATION property=%s replay=%s' % (pid, path))
    print('  clauses: %s results: %s' % (verdicts[0][1], json.dumps(t['meta']['results'])[:400]))
    return common.EXIT_VIOLATION

"""Engine `cache`: properties C01 C02 C05 C06 C07 C15 C16 C18 C20.

1. TLC model-checks layer I (specs/CacheImpl.tla) against the property's clauses of layer P
   (specs/CacheP.tla), exhaustively within the stated constants.
2. TLC generates behaviours of layer I (simulation walks and all short operation sequences);
   python adds seeded random and scenario drivers (second instance, clone, maxsize spellings).
3. Every behaviour is replayed on the real decorators over a matrix of modules / backends / keymaps,
   one event per public operation is recorded (harness/cache_driver.py).
4. TLC validates every recorded trace against layer P (specs/CacheTrace.tla) with
   Props = {property}.  A rejected trace is a violation unless its signature is a known finding.
5. Real state vs layer-I prediction differences that layer P accepts are MODEL-DRIFT notes.
"""
import json
import multiprocessing
import os
import random
import re
import shutil
import time
from concurrent.futures import ThreadPoolExecutor

from . import common
from . import cache_driver as cd

ALL_PROPS = ['C01', 'C02', 'C05', 'C06', 'C07', 'C08', 'C15', 'C16', 'C18', 'C20']
ALL_OPS = ['call', 'load', 'loadk', 'dump', 'dumpk', 'clear', 'arch_off', 'arch_on', 'set_archive',
           'lookup', 'key', 'info', 'sync']

DEVIATIONS = {
    # name -> (property, constants that expose it).  Each names a defect of the pinned code that was
    # repaired by a fix: commit; with the name in Deviations layer I models the pinned behaviour and TLC
    # must find a counterexample (its shortest one is replayed on the real code, which must now be accepted)
    'mru_pop_empty': ('C05', dict(ALG='mru', MAXSIZE=1, NARCH=1, OPS={'call', 'load', 'dump'}, ARGS={1, 2, 3}, DEPTH=6)),
    'mru_purge_leaves_stale_use': ('C05', dict(ALG='mru', MAXSIZE=1, PURGE=True, NARCH=1, OPS={'call', 'loadk', 'arch_off'}, ARGS={1, 2, 3}, DEPTH=6)),
    'no_clear_keeps_cache': ('C15', dict(ALG='no', MAXSIZE=0, NARCH=1, OPS={'call', 'load', 'clear'}, ARGS={1, 2}, DEPTH=5)),
    'safe_no_load_outside_try': ('C16', dict(ALG='no', MAXSIZE=0, NARCH=1, SAFE=True, OPS={'call'}, ARGS={1, 10}, DEPTH=3)),
}


def base_constants(**kw):
    c = dict(ALG='lru', MAXSIZE=2, PURGE=False, SAFE=False, QMULT=10, NX=4,
             ARGS={1, 2, 3, 4}, OPS={'call'}, NARCH=0, DEPTH=8, Deviations=set(), Props=set(), UNKEYAT='keymap', MAXNEST=0)
    c.update(kw)
    return c


def cfg_text(consts, spec, invariants=(), properties=(), view=None):
    lines = ['SPECIFICATION %s' % spec, 'CONSTANTS']
    for k, v in consts.items():
        if isinstance(v, (set, frozenset)) and not v:
            lines.append('  %s = {}' % k)
        else:
            lines.append('  %s = %s' % (k, common.tla_value(v)))
    for i in invariants:
        lines.append('INVARIANT %s' % i)
    for p in properties:
        lines.append('PROPERTY %s' % p)
    if view:
        lines.append('VIEW %s' % view)
    lines.append('CHECK_DEADLOCK FALSE')
    return '\n'.join(lines) + '\n'


STRUCT_INVS = ['TypeOK', 'LruQueueCoversResident', 'LruRefcountIsMultiplicity', 'MruQueueIsResident', 'MruTopIsResident',
               'LfuCountsAreResident', 'GhostUsesMatch']


def parse_counterexample(out):
    """extract the hist variable of the last state of a TLC counterexample"""
    blocks = out.split('\nState ')
    if len(blocks) < 2:
        return None
    last = blocks[-1]
    m = re.search(r'/\\ hist = (<<.*?>>)\n/\\ ', last + '\n/\\ ', re.S)
    if not m:
        return None
    txt = m.group(1)
    ops = []
    for rec in re.findall(r'\[([^\[\]]*)\]', txt):
        d = {}
        for fld in re.finditer(r'(\w+) \|-> (<<[^>]*>>|"[^"]*"|\w+)', rec):
            k, v = fld.group(1), fld.group(2)
            if v.startswith('<<'):
                d[k] = [int(x) for x in re.findall(r'-?\d+', v)]
            elif v.startswith('"'):
                d[k] = v.strip('"')
            elif v in ('TRUE', 'FALSE'):
                d[k] = v == 'TRUE'
            else:
                d[k] = int(v)
        ops.append(d)
    return ops


def model_check(consts, work, workers=4, timeout=1500, view='View'):
    p = os.path.join(work, 'mc-%s.cfg' % common.trace_hash(sorted((k, repr(v)) for k, v in consts.items())))
    with open(p, 'w') as f:
        f.write(cfg_text(consts, 'Spec', invariants=STRUCT_INVS, properties=['Refines'], view=view))
    r = common.run_tlc('CacheImpl', p, workdir=work, workers=workers, timeout=timeout, heap='6g')
    res = {'constants': {k: (sorted(v) if isinstance(v, (set, frozenset)) else v) for k, v in consts.items()},
           'generated': r.generated, 'distinct': r.distinct, 'depth': r.depth, 'wall': round(r.wall, 1),
           'ok': r.ok, 'violated': r.violated}
    if r.violated:
        res['counterexample'] = parse_counterexample(r.out)
        m = re.search(r'Error: (Invariant \w+ is violated|Action property \w+ is violated)', r.out)
        res['what'] = m.group(1) if m else 'violated'
    elif not r.ok:
        raise common.MachineryError('TLC failed on CacheImpl %s:\n%s' % (consts, r.out[-2500:]))
    return res


def generate(consts, work, num, depth, sd, exhaustive=False, workers=2, timeout=900):
    """behaviours of layer I: list of (ops, pred)"""
    c = dict(consts)
    c['DEPTH'] = depth
    c['Props'] = set()
    p = os.path.join(work, 'gen-%s.cfg' % common.trace_hash(sorted((k, repr(v)) for k, v in c.items())))
    with open(p, 'w') as f:
        f.write(cfg_text(c, 'GSpec', invariants=['Emit']))
    if exhaustive:
        r = common.run_tlc('CacheGen', p, workdir=work, workers=1, timeout=timeout, heap='4g')
    else:
        r = common.run_tlc('CacheGen', p, workdir=work, workers=1, timeout=timeout, heap='2g',
                           simulate='num=%d' % max(1, num), depth=depth + 1,
                           extra=['-seed', str(sd)])
    sim = re.findall(r'The number of states generated: (\d+)', r.out)
    if sim:
        r.generated = int(sim[-1])
    if r.error and 'HIST' not in r.out:
        raise common.MachineryError('behaviour generation failed:\n%s' % r.out[-2500:])
    out = []
    seen = set()
    for m in re.finditer(r'<<"HIST", "(.*)">>', r.out):
        s = m.group(1)
        if s in seen:
            continue
        seen.add(s)
        d = json.loads(s.replace('\\"', '"'))
        out.append((d['ops'], d['pred']))
    return out, r.generated


# ---------------------------------------------------------------------------------------------
# real side
# ---------------------------------------------------------------------------------------------

def real_cfg(consts, module, backend, keymap, how='kw', unkey=False, ni=1):
    ms = consts['MAXSIZE']
    _raise7_rot[0] += 1
    cfg = {'module': module, 'alg': consts['ALG'], 'raise7': RAISE7[_raise7_rot[0] % len(RAISE7)],
           'maxsize': (None if ms == -1 else ms), 'how': how,
           'purge': consts['PURGE'], 'backend': backend, 'keymap': keymap,
           'nx': consts['NX'], 'ni': ni, 'na': 2, 'unkey': unkey}
    if consts['ALG'] in ('no', 'inf'):
        cfg['maxsize'] = 'default'
    return cfg


def _replay_one(job):
    cfg, ops, pred, wd = job
    os.makedirs(wd, exist_ok=True)
    try:
        t = cd.run_sequence(cfg, ops, wd)
    except Exception as e:   # recorder failure = machinery problem, reported by the parent
        return {'error': '%s: %s' % (type(e).__name__, e), 'cfg': cfg, 'ops': ops}
    finally:
        shutil.rmtree(wd, True)
    drift = None
    if pred is not None and t is not None:
        evs = t['events'][1:]       # skip the decorate event
        for n, (e, p) in enumerate(zip(evs, pred)):
            real = (e['mem'][0], e['info'][0][:3], e['ret'], e['exc'])
            model = (p['mem'], p['stats'], p['ret'], p['exc'])
            if real != model:
                drift = {'step': n + 1, 'op': {k: e[k] for k in ('op', 'a') if k in e}, 'real': real, 'model': model}
                break
    t['meta']['drift'] = drift
    return t


def replay_all(jobs, procs=None):
    procs = procs or common.NCPU
    root = common.scratch('replay')
    jobs = [(c, o, p, os.path.join(root, 'r%d' % n)) for n, (c, o, p) in enumerate(jobs)]
    if not jobs:
        return []
    ctx = multiprocessing.get_context('fork')
    with ctx.Pool(min(procs, len(jobs))) as pool:
        res = pool.map(_replay_one, jobs, chunksize=max(1, len(jobs) // (procs * 8)))
    bad = [r for r in res if 'error' in r]
    if bad:
        raise common.MachineryError('recorder failed on %d job(s); first: %s' % (len(bad), bad[0]))
    return res


def signature(trace, verdict):
    idx, clauses = verdict
    e = trace['events'][idx - 1]
    cfg = trace['meta']['config']
    i = e.get('i', 1)
    inst = trace['cfg']['inst'][i - 1]
    sig = {'engine': 'cache', 'clauses': clauses, 'op': e['op'], 'alg': inst['alg'],
           'declared': cfg.get('alg'), 'module': cfg.get('module'), 'how': cfg.get('how', 'kw'),
           'exc': e.get('exc', 'none')}
    if e['op'] == 'call':
        sig['kind'] = trace['cfg']['kind'][e['a'] - 1]
        if sig['kind'] == 'raise':
            sig['raises'] = cfg.get('raise7', 'StubError') if e['a'] == len(trace['cfg']['kind']) - (2 if 'unkey' in trace['cfg']['kind'] else 1) else 'KeyError'
        # which counter this call moved (hit / load / miss), and whether the archive object was replaced earlier on
        prev = (trace['events'][idx - 2] if idx >= 2 else trace['init'])['info'][i - 1]
        now = e['info'][i - 1]
        sig['counted'] = 'hit' if now[0] > prev[0] else 'load' if now[2] > prev[2] else 'miss' if now[1] > prev[1] else 'none'
        sig['archive_replaced_before'] = any(x['op'] in ('set_archive', 'open') for x in trace['events'][:idx - 1])
    return sig


def nontrivial(trace):
    """a trace is non-trivial when it contains an eviction/purge, a load from the archive, an
    exception, a fallback, or a management operation that changed state"""
    prev = trace['init']
    for e in trace['events']:
        if e['op'] == 'call':
            i = e['i'] - 1
            before = sum(1 for v in prev['mem'][i] if v)
            after = sum(1 for v in e['mem'][i] if v)
            if e['exc'] != 'none' or (not e['ev'] and e['info'][i][2] != prev['info'][i][2]):
                return True
            if e['ev'] and after <= before:
                return True
        elif e['op'] in ('load', 'loadk', 'dump', 'dumpk', 'clear', 'clone') and \
                (e['mem'] != prev['mem'] or e['archs'] != prev['archs']):
            return True
        prev = e
    return False


class CacheRun(object):
    """one check run for one property"""

    def __init__(self, pid, tier):
        self.pid, self.tier = pid, tier
        self.rep = common.Report(pid, tier)
        self.work = common.scratch('cache')
        self.rng = random.Random(common.seed() * 7919 + int(pid[1:]))
        self.mc = []
        self.jobs = []
        self.gen_states = 0
        self.behaviours = 0
        self.deviations = {}
        self.extra_cov = {}

    # -- step 1
    def model_checks(self, configs, workers_each=4):
        par = max(1, common.NCPU // workers_each)
        with ThreadPoolExecutor(max_workers=par) as ex:
            res = list(ex.map(lambda c: model_check(c, self.work, workers=workers_each), configs))
        for r in res:
            self.mc.append(r)
            if r['violated']:
                devs = r['constants'].get('Deviations')
                if devs:
                    continue
                # candidate only: replay on the real code decides
                ops = r.get('counterexample')
                self.rep.note_drift('layer I counterexample (%s) for %s; replayed on the real code' % (
                    r.get('what'), {k: r['constants'][k] for k in ('ALG', 'MAXSIZE', 'PURGE', 'SAFE', 'NARCH')}))
                if ops:
                    self.add_behaviours(_consts_from(r['constants']), [(ops, None)], origin='counterexample')

    def deviation_runs(self):
        """one TLC run per named deviation of this property: the model of the pinned (defective) code
        must violate layer P; the counterexample is replayed on the real tree like any behaviour"""
        self.deviations = {}
        todo = [(d, v[1]) for d, v in sorted(DEVIATIONS.items()) if v[0] == self.pid]
        for d, over in todo:
            c = base_constants(QMULT=2, Props={self.pid}, Deviations={d})
            c.update(over)
            r = model_check(c, self.work, workers=4)
            self.mc.append(r)
            self.deviations[d] = {'counterexample_found': bool(r['violated']), 'what': r.get('what'),
                                  'ops': r.get('counterexample')}
            if r['violated'] and r.get('counterexample'):
                c2 = dict(c)
                c2['Deviations'] = set()
                self.add_behaviours(c2, [(r['counterexample'], None)], origin='deviation:' + d, wide=True)
            elif not r['violated']:
                self.rep.notes.append('deviation %s: TLC found no counterexample (model insensitive?)' % d)

    # -- step 2/3
    def add_behaviours(self, consts, behaviours, origin='tlc', matrix=None, wide=False, limit=None):
        matrix = matrix or self.matrix(consts, wide=wide)
        for bi, (ops, pred) in enumerate(behaviours):
            self.behaviours += 1
            mx = matrix
            if limit and len(matrix) > limit:        # a rotating window of the matrix per behaviour
                mx = [matrix[(bi * limit + j) % len(matrix)] for j in range(limit)]
            for (module, backend, keymap, unkey) in mx:
                cfg = real_cfg(consts, module, backend, keymap, unkey=unkey)
                cfg['origin'] = origin
                # predictions only apply to deterministic algorithms and to the std alphabet
                usepred = pred if consts['ALG'] != 'rr' else None
                self.jobs.append((cfg, ops, usepred))

    def matrix(self, consts, wide=False):
        """(module, backend, keymap, unkey) combinations for a model configuration"""
        narch = consts['NARCH']
        safe = consts['SAFE']
        rng = random.Random(common.seed() * 7919 + int(common.trace_hash(sorted((k, repr(v)) for k, v in consts.items())), 16))
        module = 'safe' if safe else 'std'
        if narch == 0:
            backends = ['plain']
            if wide or self.tier == 'thorough':
                backends += ['null', 'direct-dict']
        else:
            backends = ['dictarch']
            pers = ['file', 'dir', 'sql']
            if wide or self.tier == 'thorough':
                backends += pers
            else:
                backends.append(rng.choice(pers))
        kms = [('str', True, False), ('hash-md5', True, False), ('default',)]
        if not safe:
            kms.append(('raw', True, False))
        elif consts.get('UNKEYAT') == 'lookup':
            kms = [('raw', True, False)]        # the only keymap whose key can be built from an unhashable argument
        out = []
        for b in backends:
            if self.tier == 'thorough' or wide:
                ks = kms
            else:
                ks = [rng.choice(kms)]
            for km in ks:
                if b == 'sql' and safe and consts.get('UNKEYAT') == 'lookup':
                    continue                      # (raw keys are not scalars: not a key the sqlite table accepts)
                if b == 'sql' and km[0] in ('raw', 'default') and not (safe and km[0] == 'default'):
                    km = ('str', True, False)     # sqlite keys must be scalars
                out.append((module, b, km, safe))
        return out

    def generate(self, consts, num, depth, exhaustive=False):
        sd = (common.seed() * 100003 + int(common.trace_hash(sorted((k, repr(v)) for k, v in consts.items())), 16)) % (2 ** 31)
        beh, st = generate(consts, self.work, num, depth, sd, exhaustive=exhaustive)
        self.gen_states += st
        if not exhaustive and len(beh) > num:
            beh = beh[:num]
        # the complete enumerations are large: each sequence meets a rotating quarter of the configuration matrix
        self.add_behaviours(consts, beh, limit=4 if exhaustive else None)
        return len(beh)

    # -- step 3/4/5
    def finish(self, extra_traces=(), level='model_checking', assumptions=()):
        self.deviation_runs()
        # replay and validate in batches: a thorough run has several hundred thousand (configuration, sequence) pairs and
        # must not hold all their traces in memory at once
        CH = int(os.environ.get('VERIF_BATCH', '40000'))
        t_replay = t_valid = 0.0
        ntraces = nevents = nstates = rejected = ndrift = nontriv = 0
        hashes = set()
        sample = None
        jobs, self.jobs = self.jobs, []
        extra = list(extra_traces)
        for lo in range(0, max(1, len(jobs)), CH):
            t0 = time.time()
            traces = replay_all(jobs[lo:lo + CH])
            if lo == 0:
                traces += extra
            t_replay += time.time() - t0
            usable = [t for t in traces if t is not None]
            verdicts, st = common.validate_traces('CacheTrace', [_strip(t) for t in usable], [self.pid])
            t_valid += st['wall']
            ntraces += len(usable)
            nevents += st['events']
            nstates += st['states']
            for t, v in zip(usable, verdicts):
                if v is not None:
                    rejected += 1
                    sig = signature(t, v)
                    self.rep.reject(sig, {'config': t['meta']['config'], 'ops': t['meta']['ops'],
                                          'event_index': v[0], 'clauses': v[1], 'event': t['events'][v[0] - 1],
                                          'replay': 'cache'})
                elif t['meta'].get('drift'):
                    ndrift += 1
                    self.rep.note_drift('real code differs from layer I but layer P accepts: %s %s' % (
                        t['meta']['config'], t['meta']['drift']))
            for t in usable:
                h = common.trace_hash([t['cfg'], t['events']])
                if h not in hashes:
                    hashes.add(h)
                    if nontrivial(t):
                        nontriv += 1
                        if sample is None:
                            sample = {'config': t['meta']['config'], 'ops': t['meta']['ops'][:12],
                                      'events': [{k: e[k] for k in ('op', 'a', 'ret', 'exc', 'ev', 'mem', 'info') if k in e}
                                                 for e in t['events'][:6]]}
            del traces, usable, verdicts
        mc_states = sum(r['distinct'] for r in self.mc)
        mc_trans = sum(r['generated'] for r in self.mc)
        cov = {
            'states': mc_states + nstates,
            'transitions': mc_trans + self.gen_states + nevents,
            'traces_validated_against_impl': ntraces,
            'samples': [sample] if sample else [{'note': 'no non-trivial trace'}],
            'evaluations': ntraces,
            'distinct_nontrivial': nontriv,
            'rule': 'one evaluation = one operation sequence replayed on one real decorator configuration and '
                    'validated against layer P; distinct by hash of (config, events); non-trivial = contains an '
                    'eviction/purge, a load from the archive, an exception, a fallback or a state-changing '
                    'management operation',
            'exhaustive': False,
            'model_checking': {'layer_I_runs': self.mc, 'layer_I_states': mc_states,
                               'layer_I_transitions': mc_trans,
                               'behaviours_generated': self.behaviours,
                               'named_deviations': self.deviations,
                               'generation_states': self.gen_states},
            'trace_validation': {'traces': ntraces, 'events': nevents, 'rejected': rejected,
                                 'states': nstates, 'wall_s': round(t_valid, 1),
                                 'replay_wall_s': round(t_replay, 1), 'drift_traces': ndrift},
        }
        cov.update(self.extra_cov)
        for x in self.extra_cov.values():
            if isinstance(x, dict):
                cov['states'] += x.get('states', 0)
                cov['transitions'] += x.get('events', 0)
        return self.rep.finish(level, cov, assumptions)


def _strip(t):
    return {'cfg': t['cfg'], 'init': t['init'], 'events': t['events']}


def _consts_from(c):
    out = dict(c)
    for k in ('ARGS', 'OPS', 'Deviations', 'Props'):
        out[k] = set(out.get(k) or ())
    return out


ASSUME = [
    'the stub function is deterministic; F(x,y)=1000+10x+y',
    'real cache keys are mapped to key ids through f.key() of the first instance (C18 checks that key() is the storage key)',
    'TLC exhaustive runs are bounded by the constants listed under model_checking; beyond them only simulation walks',
    'backends not constructible offline (HDF5, sqlalchemy) are not exercised',
]


# ---------------------------------------------------------------------------------------------
# per-property plans
# ---------------------------------------------------------------------------------------------

def plan_common(run, pid, algs, ops, args, narchs=(0, 1), purges=(False,), safes=(False,), maxsizes=(1, 2),
                depth_q=6, depth_t=9, qmult_exh=2, sim_num=(24, 200), sim_depth=(30, 60), exh_depth=(5, 7),
                exh_args=None, exh_ops=None, nest=True):
    thorough = run.tier == 'thorough'
    mcs = []
    nested = []
    if nest:
        # re-entrancy (a memoized recursive function): two-phase calls, the wrapped function calls the decorated one again
        for alg in algs:
            for narch in sorted(set(narchs))[-1:] if not thorough else sorted(set(narchs)):
                nested.append(base_constants(ALG=alg, MAXSIZE=2 if alg not in ('no', 'inf') else 2, PURGE=bool(narch) and (True in purges) and alg == 'lru',
                                             SAFE=False, QMULT=qmult_exh, ARGS=set(list(args)[:4]) | ({8} & set(args)),
                                             OPS={'call', 'nest'} | (set(ops) & {'clear'}), NARCH=narch, MAXNEST=3 if thorough else 2,
                                             DEPTH=(depth_t if thorough else min(depth_q, 6)), Props={pid}))
    for alg in algs:
        for ms in (maxsizes if alg not in ('no', 'inf') else (2,)):
            for narch in narchs:
                for purge in (purges if (narch and alg not in ('no', 'inf')) else (False,)):
                    for safe in safes:
                        mcs.append(base_constants(ALG=alg, MAXSIZE=ms, PURGE=purge, SAFE=safe, QMULT=qmult_exh,
                                                  ARGS=set(args) | ({run_unkey(4), run_unkey(4) + 1} if safe else set()),
                                                  OPS=set(ops), NARCH=narch,
                                                  DEPTH=depth_t if thorough else depth_q, Props={pid}))
    if not thorough and len(mcs) > 12:
        keep = mcs[:]
        run.rng.shuffle(keep)
        mcs = keep[:12]
    if not thorough and len(nested) > 4:
        run.rng.shuffle(nested)
        nested = nested[:4]
    run.model_checks(mcs + nested)
    # behaviours: simulation walks (QMULT = 10 as in the code), every algorithm x archive x maxsize ...
    gens = []
    for alg in algs:
        for narch in narchs:
            for safe in safes:
                for ms in (maxsizes if alg not in ('no', 'inf') else (2,)):
                    purge = run.rng.choice(list(purges)) if narch else False
                    gens.append(base_constants(ALG=alg, MAXSIZE=ms, PURGE=purge, SAFE=safe, QMULT=10,
                                               ARGS=set(args) | ({run_unkey(4), run_unkey(4) + 1} if safe else set()),
                                               OPS=set(ops), NARCH=narch,
                                               UNKEYAT='lookup' if safe and (len(gens) % 3 == 0) else 'keymap'))
    if nest:
        for alg in algs:
            gens.append(base_constants(ALG=alg, MAXSIZE=run.rng.choice(list(maxsizes)), PURGE=False, SAFE=run.rng.choice(list(safes)), QMULT=10,
                                       ARGS=set(args), OPS={'call', 'nest'} | (set(ops) & {'clear', 'dump', 'info'}),
                                       NARCH=max(narchs), MAXNEST=3))
    num = sim_num[1] if thorough else sim_num[0]
    dep = sim_depth[1] if thorough else sim_depth[0]
    with ThreadPoolExecutor(max_workers=common.NCPU) as ex:
        list(ex.map(lambda c: run.generate(c, num, dep), gens))
    # ... and ALL operation sequences of a short length over a reduced alphabet
    ea = set(exh_args or list(args)[:3])
    eops = set(exh_ops or (set(ops) & {'call', 'clear', 'dump', 'load'}))
    # alphabet size -> the deepest complete enumeration that stays within the tier's budget
    asize = sum({'call': len(ea), 'lookup': len(ea), 'key': len(ea), 'clear': 2, 'loadk': 4, 'dumpk': 4,
                 'set_archive': 2, 'sync': 2}.get(o, 1) for o in eops)
    budget = 60000 if thorough else 1500
    ed = 2
    while asize ** (ed + 1) <= budget:
        ed += 1
    ed = min(ed, exh_depth[1] if thorough else exh_depth[0])
    exh = []
    for alg in algs:
        exh.append(base_constants(ALG=alg, MAXSIZE=2, PURGE=False, SAFE=False, QMULT=10,
                                  ARGS=ea, OPS=eops, NARCH=max(narchs)))
    with ThreadPoolExecutor(max_workers=max(1, common.NCPU // 4)) as ex:
        list(ex.map(lambda c: run.generate(c, 0, ed, exhaustive=True), exh))


def run_unkey(nx):
    return nx + 6


# ---- python-side scenario drivers (complement the TLC-generated behaviours) ------------------

BOUNDED = ['lfu', 'lru', 'mru', 'rr']
ALLALG = ['no', 'inf', 'lfu', 'lru', 'mru', 'rr']
KM_STD = [('str', True, False), ('hash-md5', True, False), ('default',), ('raw', True, False),
          ('pickle', True, False), ('dill', True, True), ('str', False, False), ('str', True, True),
          ('hash-sha1', False, True), ('pickle-repr', False, False), ('raw', True, True), ('str-repr', True, False),
          ('chain-str-sha1', True, False), ('chain-md5-pickle', True, False)]


RAISE7 = ['StubError', 'TypeError', 'ValueError', 'AttributeError', 'OSError', 'RuntimeError', 'IndexError']
_raise7_rot = [0]


def py_cfg(module, alg, maxsize, backend, keymap, purge=False, how='kw', variant='plain', ni=1, unkey=False, nx=4):
    _raise7_rot[0] += 1
    cfg = {'module': module, 'alg': alg, 'maxsize': maxsize, 'how': how, 'purge': purge, 'backend': backend,
           'keymap': keymap, 'nx': nx, 'ni': ni, 'na': 3 if ni > 1 else 2, 'unkey': unkey, 'variant': variant,
           'origin': 'python', 'raise7': RAISE7[_raise7_rot[0] % len(RAISE7)]}
    if alg in ('no', 'inf'):
        cfg['maxsize'] = 'default'
    return cfg


def compatible(backend, keymap, module):
    if backend in ('sql',) and keymap[0] in ('raw', 'pickle', 'dill', 'chain-md5-pickle'):
        return False
    if backend in ('sql',) and keymap[0] == 'default' and module == 'std':
        return True      # python hash: an int
    if keymap[0] == 'raw' and len(keymap) > 1 and not keymap[1]:
        return False     # non-flat raw keys contain a dict: unhashable
    return True


def scenario_random(run, algs, modules, backends, nseq, length, profile='mixed', maxsizes=(1, 2, 3),
                    purges=(False, True), variants=('plain',), nargs=9, keymaps=None, nx=4):
    rng = run.rng
    keymaps = keymaps or KM_STD
    for _ in range(nseq):
        alg = rng.choice(algs)
        module = rng.choice(modules)
        backend = rng.choice(backends)
        km = rng.choice(keymaps)
        tries = 0
        while not compatible(backend, km, module) and tries < 20:
            km = rng.choice(keymaps)
            tries += 1
        if not compatible(backend, km, module):
            km = ('str', True, False)
        cfg = py_cfg(module, alg, rng.choice(list(maxsizes)), backend, km, purge=rng.choice(list(purges)),
                     variant=rng.choice(list(variants)), nx=nx)
        ops = cd.random_ops(rng, length, cfg, nargs + (nx - 4), profile)
        run.jobs.append((cfg, ops, None))


def scenario_second_instance(run, nseq, length):
    """C02: a second decorated function (fresh cache, new handle) on the archive of the first"""
    rng = run.rng
    for _ in range(nseq):
        alg = rng.choice(ALLALG)
        module = rng.choice(['std', 'safe'])
        backend = rng.choice(['dictarch', 'file', 'dir', 'sql'])
        km = rng.choice([('str', True, False), ('hash-md5', True, False), ('str', True, True)])
        cfg = py_cfg(module, alg, rng.choice([1, 2]), backend, km, purge=rng.random() < 0.3, ni=2)
        ops = cd.random_ops(rng, length // 2, cfg, 7, 'nobulk')
        ops.append({'op': 'dump'} if rng.random() < 0.7 else {'op': 'info'})
        ops.append({'op': 'decorate', 'i': 2, 'rebind': 1})
        for _k in range(length // 2):
            o = cd.random_ops(rng, 1, cfg, 7, 'nobulk')[0]
            o['i'] = rng.choice([1, 2, 2])
            ops.append(o)
        run.jobs.append((cfg, ops, None))


def scenario_clone(run, nseq, length, backends=('plain', 'dictarch', 'file', 'dir', 'file-json', 'dir-json', 'dir-compressed',
                                                 'dir-proto2', 'file-proto2', 'sql')):
    """C20: dill round trip at a random prefix, then the same continuation on both in lock-step"""
    rng = run.rng
    for _ in range(nseq):
        alg = rng.choice(ALLALG)
        module = rng.choice(['std', 'safe'])
        backend = rng.choice(list(backends))
        km = rng.choice([('str', True, False), ('hash-md5', True, False), ('raw', True, False), ('default',), ('dill', True, False),
                         ('chain-str-sha1', True, False), ('chain-md5-pickle', True, True), ('chain-str-sha1', False, True),
                         ('raw-fastfloat', True, False), ('str-sorted', True, False)])
        if module == 'safe' and km[0] in ('raw', 'raw-fastfloat'):
            km = ('str', True, False)
        variant = rng.choice(['plain', 'plain', 'frac', 'ignore_y', 'tol0'])
        if backend in ('file-json', 'dir-json', 'sql') and (km[0] in ('raw', 'raw-fastfloat', 'dill', 'default', 'chain-md5-pickle') or variant == 'frac'):
            km = ('str', True, False)
        if backend in ('file-json', 'dir-json', 'sql'):
            variant = 'plain' if variant == 'frac' else variant   # (tuples do not survive JSON; the sqlite fallback stores scalars)
        cfg = py_cfg(module, alg, rng.choice([1, 2, 3]), backend, km, purge=rng.random() < 0.25, ni=2, variant=variant)
        if variant == 'plain' and rng.random() < 0.2:
            # what was decorated is a functools.partial (presetting nothing) of the stub
            cfg['aspartial'] = True
        independent = backend in ('plain', 'dictarch')
        cfg['lockstep'] = independent and alg != 'rr'
        pre = cd.random_ops(rng, rng.randint(0, length), cfg, 7, 'mixed')
        ops = list(pre)
        if rng.random() < 0.3:
            # the snapshot is taken by another thread while a call of the original is inside the wrapped function;
            # the copy then makes the same call on its own, after which both must continue in lock-step
            a = rng.randint(1, 7)
            ops.append({'op': 'call', 'a': a, 'i': 1, 'snap': 2})
            ops.append({'op': 'call', 'a': a, 'i': 2})
        else:
            ops.append({'op': 'clone', 'i': 1, 'j': 2})
        for _k in range(length):
            o = cd.random_ops(rng, 1, cfg, 7, 'mixed')[0]
            if cfg['lockstep']:
                o1 = dict(o); o1['i'] = 1
                o2 = dict(o); o2['i'] = 2; o2['mirror'] = 1
                ops += [o1, o2]
            else:
                o['i'] = rng.choice([1, 2])
                ops.append(o)
        run.jobs.append((cfg, ops, None))


def scenario_spellings(run, length, reps=1):
    """C05: every way of passing maxsize (0, None, n; positionally or by keyword), both modules"""
    rng = run.rng
    for module in ('std', 'safe'):
        for alg in BOUNDED:
            for ms in (0, None, 1, 2, 3):
                for how in ('kw', 'pos'):
                    for _ in range(reps):
                        backend = rng.choice(['plain', 'dictarch', 'file'])
                        cfg = py_cfg(module, alg, ms, backend, ('str', True, False), purge=rng.random() < 0.5, how=how)
                        ops = cd.random_ops(rng, length, cfg, 7, 'setarch')
                        run.jobs.append((cfg, ops, None))


def scenario_unkeyable(run, nseq, length):
    """C16: safe decorators with arguments that cannot be keyed, with and without an archive"""
    rng = run.rng
    kms = [('raw', True, False), ('hash', True, False), ('str', True, False), ('str', False, False),
           ('pickle', True, False), ('dill', True, False), ('hash-md5', True, False), ('default',),
           ('pickle-repr', True, False)]
    for alg in ALLALG:
        for km in kms:
            for backend in ('plain', 'dictarch', 'dir'):
                for _ in range(nseq):
                    kinds = ['type', 'value', 'attr', 'runtime', 'lookuperr', 'recursion']
                    if km[0] in ('pickle', 'dill'):
                        kinds += ['nopickle', 'nopickle']     # printable and hashable, but the serializer refuses it
                    cfg = py_cfg('safe', alg, rng.choice([1, 2]), backend, km, purge=rng.random() < 0.3, unkey=rng.choice(kinds))
                    ops = []
                    for o in cd.random_ops(rng, length, cfg, 9, 'mixed'):
                        if o['op'] == 'call' and rng.random() < 0.35:
                            o = {'op': 'call', 'a': 10 if rng.random() < 0.7 else 11}     # 11: unkeyable and the function raises
                        ops.append(o)
                    run.jobs.append((cfg, ops, None))


def scenario_recursive(run, nseq, algs=None, backends=('plain', 'dictarch', 'file'), maxsizes=(1, 2, 3), raising=False):
    """a memoized RECURSIVE function: while f(a) is evaluated it calls the decorated f for other arguments (a chain like
    fib(n) -> fib(n-1) -> ..., or two calls at one level).  Each nested call is an ordinary, complete call that happens
    before the outer one returns; the outer call is judged against the state the nested ones left."""
    rng = run.rng
    NX = 6
    for _ in range(nseq):
        alg = rng.choice(algs or ALLALG)
        module = rng.choice(['std', 'safe'])
        cfg = py_cfg(module, alg, rng.choice(list(maxsizes)), rng.choice(list(backends)), ('str', True, False),
                     purge=rng.random() < 0.25, nx=NX)
        ops = []
        for _k in range(rng.randint(2, 6)):
            r = rng.random()
            if r < 0.55:
                chain = rng.sample(range(1, NX + 1), rng.randint(2, 5))     # distinct keys: no cycle
                if raising and rng.random() < 0.4:                          # one member of the chain raises
                    chain[rng.randrange(len(chain))] = NX + rng.choice([4, 5])
                node = {'a': chain[-1]}
                for a in reversed(chain[:-1]):
                    kids = [node]
                    if rng.random() < 0.3:
                        extra = [x for x in range(1, NX + 1) if x not in chain]
                        if extra:
                            kids.append({'a': rng.choice(extra)})
                    node = {'a': a, 'nest': kids}
                ops.append(dict(node, op='call'))
            elif r < 0.9:
                ops.append({'op': 'call', 'a': rng.randint(1, NX)})
            else:
                ops.append(rng.choice([{'op': 'clear', 'keep': False}, {'op': 'dump'}, {'op': 'info'}]))
        ops.append({'op': 'info'})
        run.jobs.append((cfg, ops, None))


def scenario_twin(run, nseq, length, skip, algs=('lru', 'mru', 'lfu', 'inf', 'no'), backends=('plain', 'dictarch', 'file')):
    """a difference test: two instances with the same configuration and independent storage receive the same operations,
    except that the operations in `skip` (key()/lookup() queries, or calls that raise) only go to instance 1; after every
    common operation instance 2 must be exactly where instance 1 is.  (rr_cache is random: not included)"""
    rng = run.rng
    for _ in range(nseq):
        alg = rng.choice(list(algs))
        module = rng.choice(['std', 'safe'])
        backend = rng.choice(list(backends))
        cfg = py_cfg(module, alg, rng.choice([1, 2, 3]), backend, rng.choice([('str', True, False), ('hash-md5', True, False)]),
                     purge=rng.random() < 0.25, ni=2)
        ops = [{'op': 'decorate', 'i': 2, 'backend': backend}]
        for o in cd.random_ops(rng, length, cfg, 9, 'mixed'):
            if o['op'] in ('arch_off', 'arch_on', 'set_archive', 'sync'):
                continue
            if rng.random() < 0.3:
                o = {'op': rng.choice(['lookup', 'key']), 'a': rng.randint(1, 7)} if 'lookup' in skip else {'op': 'call', 'a': rng.choice([8, 9])}
            raising = o['op'] == 'call' and o['a'] in (8, 9)
            if o['op'] in skip or (raising and 'raise' in skip):
                ops.append(dict(o, i=1))
            else:
                ops.append(dict(o, i=1))
                ops.append(dict(o, i=2, mirror=1))
        run.jobs.append((cfg, ops, None))


def scenario_probes(run, kinds, modules=('std', 'safe'), backends=('plain', 'dictarch')):
    """deterministic probes of corners that random walks reach only by luck (each was motivated by a seeded change that a
    run of random walks missed): what follows a clear(keepstats), the LRU/MRU queue compaction, an unkeyable call
    right before an overflow, introspection right before an overflow"""
    NX = 6                      # arguments 1..6 are six distinct keys (stubs.XS); NX+6 is the unkeyable argument
    for module in modules:
        for backend in backends:
            for alg in BOUNDED:
                for ms in (1, 2, 3):
                    km = ('str', True, False)
                    base = py_cfg(module, alg, ms, backend, km, nx=NX)
                    keys = list(range(1, NX + 1))
                    if 'clear' in kinds and 2 * ms + 1 <= NX:
                        for keep, hit in ((True, False), (True, True), (False, False)):
                            ops = [{'op': 'call', 'a': a} for a in keys[:ms]]
                            if hit:
                                ops += [{'op': 'call', 'a': keys[0]}]
                            ops += [{'op': 'clear', 'keep': keep}]
                            ops += [{'op': 'call', 'a': a} for a in keys[ms:2 * ms + 2]]
                            ops += [{'op': 'info'}]
                            run.jobs.append((dict(base), ops, None))
                    if 'compaction' in kinds and alg in ('lru', 'mru'):
                        for hot in range(ms):
                            for extra in (-1, 0, 1, 4):
                                ops = [{'op': 'call', 'a': a} for a in keys[:ms]]
                                ops += [{'op': 'call', 'a': keys[hot]}] * (10 * ms + extra)
                                ops += [{'op': 'call', 'a': keys[ms]}, {'op': 'call', 'a': keys[ms + 1]}]
                                ops += [{'op': 'call', 'a': keys[(hot + 1) % ms]}, {'op': 'call', 'a': keys[ms + 2]}]
                                run.jobs.append((dict(base), ops, None))
                    if 'replaced' in kinds and backend != 'plain' and ms + 3 <= NX:
                        # evict to A, load back, replace the archive by B, evict again (must reach B), ask again (from B)
                        for sync in (False, True):
                            ops = [{'op': 'call', 'a': a} for a in keys[:ms + 1]]        # keys[0] is evicted to A (lru)
                            ops += [{'op': 'call', 'a': a} for a in keys[:ms + 1]]       # everything comes back from A in turn
                            ops += [{'op': 'sync', 'clear': True}] if sync else [{'op': 'set_archive', 'x': 2}]
                            ops += [{'op': 'call', 'a': a} for a in keys[ms + 1:ms + 3]]  # new keys push the old ones out
                            ops += [{'op': 'call', 'a': a} for a in keys[:ms + 1]] + [{'op': 'info'}]
                            run.jobs.append((dict(base), ops, None))
                            run.jobs.append((dict(base, purge=True), ops, None))
                    if 'bulk' in kinds and backend != 'plain' and ms + 3 <= NX:
                        # more entries than maxsize come in by one load() (no recorded use), then calls with new and old keys
                        for pg in (False, True):
                            ops = [{'op': 'call', 'a': a} for a in keys[:ms + 2]] + [{'op': 'dump'}, {'op': 'clear', 'keep': True}, {'op': 'load'}]
                            ops += [{'op': 'info'}, {'op': 'call', 'a': keys[ms + 2]}, {'op': 'info'}, {'op': 'call', 'a': keys[0]},
                                    {'op': 'call', 'a': keys[ms + 2]}, {'op': 'call', 'a': keys[1]}, {'op': 'info'}]
                            run.jobs.append((dict(base, purge=pg), ops, None))
                    if 'purge_off' in kinds and backend != 'plain' and 2 * ms + 2 <= NX:
                        # keys used twice, an overflow that purges to the archive, the archive switched off, more overflows
                        for off in ('arch_off', 'set_null'):
                            ops = []
                            for a in keys[:ms]:
                                ops += [{'op': 'call', 'a': a}, {'op': 'call', 'a': a}]
                            ops += [{'op': 'call', 'a': keys[ms]}, {'op': 'info'}]
                            ops += [{'op': 'arch_off'}] if off == 'arch_off' else [{'op': 'set_archive', 'x': 0}]
                            ops += [{'op': 'call', 'a': a} for a in keys[ms + 1:2 * ms + 2]] + [{'op': 'info'}]
                            run.jobs.append((dict(base, purge=True), ops, None))
                    if 'peek' in kinds:
                        ops = []
                        for n, a in enumerate(keys[:ms]):
                            ops += [{'op': 'call', 'a': a}] * (ms - n)         # key n is used ms-n times: the last is least used
                        ops += [{'op': 'lookup', 'a': keys[ms - 1]}] * 3 + [{'op': 'key', 'a': keys[ms - 1]}]
                        ops += [{'op': 'call', 'a': keys[ms]}, {'op': 'call', 'a': keys[ms + 1]}, {'op': 'info'}]
                        run.jobs.append((dict(base), ops, None))
            if 'unkey' in kinds and module == 'safe':
                for alg in ALLALG:
                    for km in (('raw', True, False), ('hash', True, False), ('default',)):
                        for ms in (1, 2):
                            cfg = py_cfg('safe', alg, ms, backend, km, unkey='type', nx=NX)
                            ops = [{'op': 'call', 'a': a} for a in range(1, ms + 1)]
                            ops += [{'op': 'call', 'a': NX + 6}, {'op': 'call', 'a': ms + 1}, {'op': 'call', 'a': ms + 2},
                                    {'op': 'call', 'a': 1}, {'op': 'call', 'a': NX + 6}, {'op': 'call', 'a': ms + 3}, {'op': 'info'}]
                            run.jobs.append((cfg, ops, None))


def check_C01(tier):
    run = CacheRun('C01', tier)
    plan_common(run, 'C01', ALLALG, ops=ALL_OPS, args=[1, 2, 3, 4, 5, 6, 8], narchs=(0, 1, 2), purges=(False, True),
                safes=(False, True), maxsizes=(1, 2), depth_q=5, depth_t=7, sim_num=(8, 60), exh_depth=(3, 4),
                exh_ops={'call', 'clear', 'dump', 'load', 'arch_off', 'arch_on'})
    t = tier == 'thorough'
    scenario_random(run, ALLALG, ['std', 'safe'], ['plain', 'null', 'dictarch', 'file', 'dir', 'sql', 'direct-dict',
                    'direct-file', 'direct-dir'], 2500 if t else 350, 40 if t else 25,
                    variants=('plain', 'plain', 'ignore_y', 'tol0'))
    scenario_probes(run, {'compaction', 'clear', 'peek'}, backends=('plain', 'dictarch', 'file'))
    scenario_recursive(run, 1000 if t else 150)
    # arguments whose keys are longer than a file name may be and agree on a long prefix (directory archives drop such
    # entries - C03's known finding - so they are recomputed: the answers must still be right)
    scenario_random(run, ALLALG, ['std', 'safe'], ['dir', 'direct-dir', 'file', 'dictarch'], 600 if t else 100, 30 if t else 22,
                    variants=('long',), keymaps=[('raw', True, False), ('str', True, False), ('pickle-repr', True, False), ('hash-md5', True, False)])
    # callables and keys of other kinds: a builtin without signature (getattr over a probe object), a purely variadic function
    # whose keys are false in a boolean test (0, '', b'', ()), equal arguments of different types under type-keeping keymaps
    scenario_random(run, ALLALG, ['std', 'safe'], ['plain', 'dictarch', 'file'], 450 if t else 60, 24, variants=('builtin',),
                    keymaps=[('str', True, False), ('hash-md5', True, False), ('pickle', True, False)])
    scenario_random(run, ALLALG, ['std', 'safe'], ['plain', 'dictarch', 'file'], 450 if t else 60, 24, variants=('falsykey',),
                    keymaps=[('raw', True, False), ('str', True, False)])
    scenario_random(run, ALLALG, ['std', 'safe'], ['plain', 'dictarch', 'file'], 450 if t else 60, 24, nx=6, variants=('eqtypes',),
                    keymaps=[('str', True, False), ('raw', True, True), ('pickle', True, False), ('hash-md5', True, True), ('str-repr', True, False)])
    # the same property on the key engine's catalogue of signatures, spellings, keymaps and callables (partials, methods,
    # functions sharing a code object): the returned value is compared with the function's own value for that call
    from . import key_checks
    run.extra_cov['key_catalogue'] = key_checks.extra_for_C01(run.rep, tier)
    return run.finish(assumptions=ASSUME)


def check_C02(tier):
    run = CacheRun('C02', tier)
    plan_common(run, 'C02', ALLALG, ops=ALL_OPS, args=[1, 2, 3, 4, 5, 6], narchs=(0, 1), purges=(False, True),
                safes=(False,), maxsizes=(1, 2), depth_q=5, depth_t=7, sim_num=(10, 80), exh_depth=(3, 4),
                exh_ops={'call', 'clear', 'dump', 'arch_off', 'arch_on'})
    t = tier == 'thorough'
    scenario_second_instance(run, 1500 if t else 250, 30 if t else 20)
    scenario_random(run, ALLALG, ['std', 'safe'], ['plain', 'dictarch', 'file', 'dir', 'sql', 'direct-dict', 'direct-dir'],
                    1500 if t else 200, 40 if t else 25, variants=('plain', 'plain', 'ignore_y', 'ignore_1', 'tol0'))
    scenario_probes(run, {'compaction', 'clear', 'replaced'}, backends=('dictarch', 'file'))
    scenario_recursive(run, 1000 if t else 150, backends=('dictarch', 'file', 'dir'))
    # histories in which the archive object is replaced (f.archive(B)) between evictions and re-loads
    scenario_random(run, BOUNDED + ['inf'], ['std', 'safe'], ['dictarch', 'file', 'dir'], 600 if t else 120, 40 if t else 30,
                    profile='setarch', maxsizes=(1, 2))
    # results of a few hundred KB (compressed / plain directory entries and file archives are read and written in pieces)
    scenario_random(run, ALLALG, ['std', 'safe'], ['dir-compressed', 'dir-compressed', 'dir', 'file'], 120 if t else 24, 16 if t else 12,
                    variants=('big',), keymaps=[('str', True, False), ('hash-md5', True, False)], maxsizes=(1, 2))
    # fault injection: the archive's read fails once exactly when a call would be answered from the archive; the standard
    # decorators must not evaluate the function then (the 'safe' ones degrade to plain evaluation by contract: excluded)
    rng = run.rng
    for _ in range(900 if t else 150):
        alg = rng.choice(ALLALG)
        cfg = py_cfg('std', alg, rng.choice([1, 2]), 'flaky', ('str', True, False), purge=rng.random() < 0.3)
        ops = []
        for o in cd.random_ops(rng, 30 if t else 22, cfg, 7, 'nobulk'):
            if o['op'] == 'call' and rng.random() < 0.5:
                o['rfault'] = True
            ops.append(o)
        run.jobs.append((cfg, ops, None))
    return run.finish(assumptions=ASSUME + ['fault injection: a one-shot OSError in the in-memory archive\'s __getitem__, armed only for '
                                            'calls whose key is archived and not resident (standard decorators only)'])


def check_C05(tier):
    run = CacheRun('C05', tier)
    plan_common(run, 'C05', ALLALG, ops=['call', 'load', 'loadk', 'dump', 'clear', 'arch_off', 'arch_on'],
                args=[1, 2, 3, 4, 8], narchs=(0, 1), purges=(False, True), safes=(False,), maxsizes=(1, 2, 3),
                depth_q=6, depth_t=8, sim_num=(12, 80), exh_depth=(4, 5), exh_ops={'call', 'load', 'dump', 'clear'}, exh_args={1, 2, 3, 4})
    t = tier == 'thorough'
    scenario_spellings(run, 30 if t else 20, reps=6 if t else 1)
    scenario_recursive(run, 1500 if t else 250)
    scenario_probes(run, {'clear', 'compaction', 'purge_off', 'bulk'}, backends=('plain', 'dictarch', 'file'))
    # arguments of mutually unorderable types (int, str, None, float, tuple, bytes) under keymaps that keep them as they are
    scenario_random(run, BOUNDED, ['std', 'safe'], ['plain', 'dictarch', 'file'], 500 if t else 100, 30, maxsizes=(1, 2, 3), nx=6,
                    variants=('mixed',), keymaps=[('raw', True, False), ('raw', True, True), ('dill', True, False), ('str-repr', True, False)], profile='calls')
    scenario_random(run, BOUNDED, ['std', 'safe'], ['plain', 'dictarch', 'file', 'dir', 'sql'], 1500 if t else 250,
                    40 if t else 30, maxsizes=(1, 2, 3, 4), nx=6, profile='setarch')
    return run.finish(assumptions=ASSUME)


def check_C06(tier):
    run = CacheRun('C06', tier)
    plan_common(run, 'C06', ['lfu', 'lru', 'mru', 'rr'],
                ops=['call', 'clear', 'lookup', 'dump', 'load', 'arch_off', 'arch_on'],
                args=[1, 2, 3, 4, 8], narchs=(0, 1), purges=(False,), maxsizes=(1, 2, 3),
                depth_q=7, depth_t=10)
    # bulk loads that put more entries into memory than maxsize, then misses (the random policy removes exactly one)
    scenario_random(run, ['rr', 'lru', 'lfu', 'mru'], ['std', 'safe'], ['dictarch', 'file'], 600 if tier == 'thorough' else 120, 30,
                    maxsizes=(1, 2), purges=(False,), nx=6)
    t = tier == 'thorough'
    # cache keys that are false in a boolean test (0, '', b'', ()): a purely variadic function under flat raw / textual keymaps
    scenario_random(run, ['lru', 'lfu', 'mru', 'rr'], ['std', 'safe'], ['plain', 'dictarch', 'file'], 600 if t else 120, 28,
                    maxsizes=(1, 2, 3), purges=(False,), variants=('falsykey',), keymaps=[('raw', True, False), ('str', True, False)])
    # long call-only walks: the LRU queue compaction (more than 10*maxsize recorded uses) must be crossed
    longs = []
    for alg in ('lru', 'mru', 'lfu'):
        for ms in (1, 2, 3):
            for narch in (0, 1):
                if alg != 'lru' and (ms != 2 or narch):
                    continue
                longs.append(base_constants(ALG=alg, MAXSIZE=ms, QMULT=10, ARGS={1, 2, 3, 4}, OPS={'call'}, NARCH=narch))
    with ThreadPoolExecutor(max_workers=common.NCPU) as ex:
        list(ex.map(lambda c: run.generate(c, 400 if t else 60, 45 + 12 * c['MAXSIZE']), longs))
    scenario_probes(run, {'compaction', 'clear', 'bulk'})
    scenario_recursive(run, 1500 if t else 250, algs=BOUNDED, backends=('plain', 'dictarch'))
    return run.finish(assumptions=ASSUME + ['entries that entered memory through a bulk load() have no recorded use; '
                                            'the policy clause is not judged while such entries are resident (C05 covers the bound)'])


def check_C07(tier):
    run = CacheRun('C07', tier)
    plan_common(run, 'C07', ['no'] + BOUNDED, ops=['call', 'load', 'dump', 'dumpk', 'clear', 'arch_off', 'arch_on', 'set_archive', 'sync'],
                args=[1, 2, 3, 4, 8], narchs=(1, 2), purges=(False, True), safes=(False, True), maxsizes=(1, 2),
                depth_q=5, depth_t=7, sim_num=(8, 60), exh_depth=(4, 5), exh_ops={'call', 'load', 'clear', 'arch_off', 'arch_on'})
    t = tier == 'thorough'
    scenario_random(run, ['no'] + BOUNDED, ['std', 'safe'], ['dictarch', 'file', 'dir', 'sql'], 1500 if t else 250,
                    40 if t else 25, profile='setarch')
    scenario_recursive(run, 800 if t else 120, algs=BOUNDED, backends=('dictarch', 'file', 'dir'))
    scenario_probes(run, {'replaced'}, backends=('dictarch', 'file', 'sql'))
    # focused walks: evictions interleaved with replacing the archive (evict -> reload -> f.archive(B) -> evict)
    foc = []
    for alg in BOUNDED:
        for safe in (False, True):
            foc.append(base_constants(ALG=alg, MAXSIZE=run.rng.choice([1, 2]), SAFE=safe, QMULT=10, ARGS={1, 2, 3},
                                      OPS={'call', 'set_archive'}, NARCH=2))
    with ThreadPoolExecutor(max_workers=common.NCPU) as ex:
        list(ex.map(lambda c: run.generate(c, 150 if t else 30, 30), foc))
    # the reproducer of the known finding no-cache-drops-entries-loaded-from-a-replaced-archive, on every run
    for module in ('std', 'safe'):
        for backend in ('dictarch', 'file'):
            run.jobs.append((py_cfg(module, 'no', 'default', backend, ('str', True, False)),
                             [{'a': 3, 'op': 'call'}, {'op': 'load'}, {'op': 'set_archive', 'x': 2}, {'a': 3, 'op': 'call'}], None))
    # fault injection: the archive write of an eviction / purge fails once; the victim must not be lost
    rng = run.rng
    for _ in range(1200 if t else 200):
        alg = rng.choice(BOUNDED)      # (no_cache's load path clears without dumping: only reachable after a fault)
        cfg = py_cfg(rng.choice(['std', 'safe']), alg, rng.choice([1, 2]), 'flaky', ('str', True, False),
                     purge=rng.random() < 0.3)
        ops = []
        for o in cd.random_ops(rng, 30 if t else 22, cfg, 7, 'calls'):
            if rng.random() < 0.2:
                ops.append({'op': 'arm_fault'})
            ops.append(o)
        run.jobs.append((cfg, ops, None))
    return run.finish(assumptions=ASSUME + ['fault injection: a one-shot OSError in the in-memory archive\'s write (update/__setitem__)'])


def check_C15(tier):
    run = CacheRun('C15', tier)
    plan_common(run, 'C15', ALLALG, ops=ALL_OPS, args=[1, 2, 3, 4, 8], narchs=(0, 1), purges=(False, True),
                safes=(False, True), maxsizes=(1, 2), depth_q=5, depth_t=7, sim_num=(8, 60), exh_depth=(3, 4),
                exh_ops={'call', 'clear', 'load', 'dump', 'arch_off', 'arch_on'})
    t = tier == 'thorough'
    scenario_random(run, ALLALG, ['std', 'safe'], ['plain', 'dictarch', 'file', 'dir', 'sql', 'direct-dict'],
                    1500 if t else 250, 40 if t else 25)
    scenario_unkeyable(run, 2 if t else 1, 20)
    scenario_recursive(run, 1000 if t else 150, raising=True)
    scenario_probes(run, {'bulk', 'purge_off', 'clear'}, backends=('dictarch', 'file'))
    # two klepto decorators stacked: info(), clear(), key(), lookup(), __cache__() of the result are the OUTER decorator's
    rng = run.rng
    for _ in range(400 if t else 70):
        module = rng.choice(['std', 'safe'])
        backend = rng.choice(['plain', 'dictarch', 'file'])
        cfg = py_cfg(module, rng.choice(ALLALG), rng.choice([1, 2, 3]), backend, rng.choice([('str', True, False), ('hash-md5', True, False)]),
                     purge=rng.random() < 0.3)
        cfg['stacked'] = True
        # (one spelling per call: the outer decorator sees the inner wrapper's (*args, **kwds) and cannot tell that f(1, 0)
        # and f(1) are the same call - less sharing, not a wrong answer, and inherent in stacking)
        ops = [dict(o, a=o['a'] - 4) if o.get('a') in (5, 6, 7) else o for o in cd.random_ops(rng, 26 if t else 20, cfg, 9, 'mixed')]
        run.jobs.append((cfg, ops, None))
    # one decorator object on two functions: calls of the sibling are not part of f's account.  (Only the decorators without
    # eviction: the two wrappers share the cache but not the recency / frequency bookkeeping, which is the user's risk.)
    rng = run.rng
    for _ in range(600 if t else 100):
        cfg = py_cfg(rng.choice(['std', 'safe']), rng.choice(['inf', 'no']), 2, rng.choice(['plain', 'dictarch', 'file']),
                     rng.choice([('str', True, False), ('hash-md5', True, False), ('default', True, False)]))
        cfg['sibling'] = True
        ops = []
        for o in cd.random_ops(rng, 26 if t else 20, cfg, 9, 'nobulk'):
            if rng.random() < 0.3:
                o = {'op': 'sibcall', 'a': rng.randint(1, 7)}
            ops.append(o)
        run.jobs.append((cfg, ops, None))
    return run.finish(assumptions=ASSUME)


def check_C16(tier):
    run = CacheRun('C16', tier)
    plan_common(run, 'C16', ALLALG, ops=['call', 'load', 'dump', 'clear', 'lookup', 'arch_off', 'arch_on'],
                args=[1, 2, 3, 8, 9], narchs=(0, 1), purges=(False, True), safes=(False, True), maxsizes=(1, 2),
                depth_q=5, depth_t=7, sim_num=(8, 60), exh_depth=(4, 5), exh_args={1, 2, 3, 8}, exh_ops={'call', 'clear'})
    t = tier == 'thorough'
    scenario_unkeyable(run, 4 if t else 1, 25 if t else 18)
    scenario_probes(run, {'unkey'})
    scenario_twin(run, 1200 if t else 200, 30 if t else 24, skip={'raise'})
    scenario_recursive(run, 1000 if t else 150, raising=True)
    scenario_random(run, ALLALG, ['std', 'safe'], ['plain', 'dictarch', 'file', 'dir', 'direct-dict'],
                    1000 if t else 150, 40 if t else 25)
    return run.finish(assumptions=ASSUME + ['"unkeyable" arguments: a list for raw / python-hash keymaps, an object whose '
                                            'repr/str/pickle/hash raise for the serialising keymaps'])


def check_C18(tier):
    run = CacheRun('C18', tier)
    plan_common(run, 'C18', ALLALG, ops=['call', 'lookup', 'key', 'clear', 'dump', 'load', 'info'],
                args=[1, 2, 3, 5, 6, 8], narchs=(0, 1), purges=(False,), safes=(False, True), maxsizes=(1, 2),
                depth_q=5, depth_t=7, sim_num=(8, 60), exh_depth=(4, 5), exh_ops={'call', 'lookup', 'clear'})
    t = tier == 'thorough'
    scenario_probes(run, {'peek'})
    scenario_twin(run, 1500 if t else 250, 30 if t else 24, skip={'lookup', 'key'})
    # equal arguments of different types under keymaps that keep the types apart
    scenario_random(run, ALLALG, ['std', 'safe'], ['plain', 'dictarch', 'file'], 600 if t else 100, 25, nx=6, variants=('eqtypes',),
                    keymaps=[('str', True, False), ('raw', True, True), ('pickle', True, False), ('hash-md5', True, True), ('str-repr', True, False)])
    # the decorated callable is a builtin without a signature (getattr): key() and lookup() must not evaluate it either
    rng = run.rng
    for _ in range(600 if t else 100):
        cfg = py_cfg(rng.choice(['std', 'safe']), rng.choice(ALLALG), rng.choice([1, 2, 3]), rng.choice(['plain', 'dictarch', 'file']),
                     rng.choice([('str', True, False), ('hash-md5', True, False), ('raw', True, False), ('pickle', True, False)]), variant='builtin')
        ops = [{'op': 'wrapped'}]
        for o in cd.random_ops(rng, 26 if t else 20, cfg, 9, 'nobulk'):
            if rng.random() < 0.4:
                o = {'op': rng.choice(['lookup', 'key']), 'a': rng.randint(1, 9)}
            ops.append(o)
        run.jobs.append((cfg, ops, None))
    n = 2000 if t else 300
    for _ in range(n):
        alg = rng.choice(ALLALG)
        module = rng.choice(['std', 'safe'])
        backend = rng.choice(['plain', 'dictarch', 'dir', 'file'])
        km = rng.choice(KM_STD)
        if not compatible(backend, km, module):
            km = ('str', True, False)
        cfg = py_cfg(module, alg, rng.choice([1, 2, 3]), backend, km, variant=rng.choice(['plain', 'ignore_y', 'ignore_1', 'ignore_w', 'tol0', 'tol1']))
        cfg['reuse'] = rng.random() < 0.3      # the decorator object is applied to a second function as well
        cfg['aspartial'] = rng.random() < 0.25   # what is decorated is a functools.partial (presetting nothing) of the stub
        ops = [{'op': 'wrapped'}]
        for o in cd.random_ops(rng, 30 if t else 22, cfg, 9, 'nobulk'):
            if rng.random() < 0.35:
                o = {'op': rng.choice(['lookup', 'key']), 'a': rng.randint(1, 9)}
            ops.append(o)
        run.jobs.append((cfg, ops, None))
    return run.finish(assumptions=ASSUME)


def check_C20(tier):
    run = CacheRun('C20', tier)
    # the mechanism model is checked for the independence / bookkeeping clauses that clones rely on
    plan_common(run, 'C20', ['lru', 'lfu', 'mru'], ops=['call', 'clear', 'dump'], args=[1, 2, 3], narchs=(0, 1),
                purges=(False,), safes=(False,), maxsizes=(2,), depth_q=5, depth_t=7, sim_num=(4, 20), exh_depth=(3, 4))
    t = tier == 'thorough'
    scenario_clone(run, 3000 if t else 500, 14 if t else 10)
    return run.finish(assumptions=ASSUME + ['clones are produced with dill.loads(dill.dumps(f)) in the same process; '
                                            'lock-step equality is only required when the archives of original and copy are independent and the algorithm is not random'])


CHECKS = {'C01': check_C01, 'C02': check_C02, 'C05': check_C05, 'C06': check_C06, 'C07': check_C07,
          'C15': check_C15, 'C16': check_C16, 'C18': check_C18, 'C20': check_C20}



def main(pid, tier):
    return CHECKS[pid](tier)


def replay(pid, path):
    """re-run the recorded operation sequence on the current tree and let TLC judge it again"""
    case = json.load(open(path))['case']
    if case.get('replay') == 'key' or (case.get('variant') or {}).get('replay') == 'key':
        from . import key_checks
        return key_checks.replay(pid, path)
    wd = os.path.join(common.scratch('cache-replay'), 'r')
    os.makedirs(wd, exist_ok=True)
    t = cd.run_sequence(case['config'], case['ops'], wd)
    if t is None:
        raise common.MachineryError('the recorded configuration cannot be keyed on this tree')
    verdicts, _ = common.validate_traces('CacheTrace', [_strip(t)], [pid])
    if verdicts[0] is None:
        print('replay: accepted on the current tree')
        return common.EXIT_OK
    print('VIOLATION property=%s replay=%s' % (pid, path))
    print('  clauses: %s at event %d: %s' % (verdicts[0][1], verdicts[0][0], json.dumps(t['events'][verdicts[0][0] - 1], default=repr)[:500]))
    return common.EXIT_VIOLATION

"""Engine `cache`: properties C01 C02 C05 C06 C07 C15 C16 C18 C20.

1. TLC model-checks layer I (specs/CacheImpl.tla) against the property's clauses of layer P
   (specs/CacheP.tla), exhaustively within the stated constants.
2. TLC generates behaviours of layer I (simulation walks and all short operation sequences);
   python adds seeded random and scenario drivers (second instance, clone, maxsize spellings).
3. Every behaviour is replayed on the real decorators over a matrix of modules / backends / keymaps,
   one event per public operation is recorded (harness/cache_driver.py).
4. TLC validates every recorded trace against layer P (specs/CacheTrace.tla) with
   Props = {property}.  A rejected trace is a violation unless its signature is a known finding.
5. Real state vs layer-I prediction differences that layer P accepts are MODEL-DRIFT notes.
"""
import json
import multiprocessing
import os
import random
import re
import shutil
import time
from concurrent.futures import ThreadPoolExecutor

from . import common
from . import cache_driver as cd

ALL_PROPS = ['C01', 'C02', 'C05', 'C06', 'C07', 'C08', 'C15', 'C16', 'C18', 'C20']
ALL_OPS = ['call', 'load', 'loadk', 'dump', 'dumpk', 'clear', 'arch_off', 'arch_on', 'set_archive',
           'lookup', 'key', 'info']

DEVIATIONS = {
    # name -> (property, constants override that exposes it)
    'mru_pop_empty': ('C05', dict(ALG='mru', MAXSIZE=1, NARCH=1, OPS={'call', 'load', 'dump'}, ARGS={1, 2, 3}, DEPTH=6)),
    'no_clear_keeps_cache': ('C15', dict(ALG='no', MAXSIZE=0, NARCH=1, OPS={'call', 'load', 'clear'}, ARGS={1, 2}, DEPTH=5)),
}


def base_constants(**kw):
    c = dict(ALG='lru', MAXSIZE=2, PURGE=False, SAFE=False, QMULT=10, NX=3,
             ARGS={1, 2, 3, 4}, OPS={'call'}, NARCH=0, DEPTH=8, Deviations=set(), Props=set())
    c.update(kw)
    return c


def cfg_text(consts, spec, invariants=(), properties=(), view=None):
    lines = ['SPECIFICATION %s' % spec, 'CONSTANTS']
    for k, v in consts.items():
        if isinstance(v, (set, frozenset)) and not v:
            lines.append('  %s = {}' % k)
        else:
            lines.append('  %s = %s' % (k, common.tla_value(v)))
    for i in invariants:
        lines.append('INVARIANT %s' % i)
    for p in properties:
        lines.append('PROPERTY %s' % p)
    if view:
        lines.append('VIEW %s' % view)
    lines.append('CHECK_DEADLOCK FALSE')
    return '\n'.join(lines) + '\n'


STRUCT_INVS = ['TypeOK', 'LruQueueCoversResident', 'LruRefcountIsMultiplicity', 'MruQueueIsResident',
               'LfuCountsAreResident', 'GhostUsesMatch']


def parse_counterexample(out):
    """extract the hist variable of the last state of a TLC counterexample"""
    blocks = out.split('\nState ')
    if len(blocks) < 2:
        return None
    last = blocks[-1]
    m = re.search(r'/\\ hist = (<<.*?>>)\n/\\ ', last + '\n/\\ ', re.S)
    if not m:
        return None
    txt = m.group(1)
    ops = []
    for rec in re.findall(r'\[([^\[\]]*)\]', txt):
        d = {}
        for fld in re.finditer(r'(\w+) \|-> (<<[^>]*>>|"[^"]*"|\w+)', rec):
            k, v = fld.group(1), fld.group(2)
            if v.startswith('<<'):
                d[k] = [int(x) for x in re.findall(r'-?\d+', v)]
            elif v.startswith('"'):
                d[k] = v.strip('"')
            elif v in ('TRUE', 'FALSE'):
                d[k] = v == 'TRUE'
            else:
                d[k] = int(v)
        ops.append(d)
    return ops


def model_check(consts, work, workers=4, timeout=1500, view='View'):
    p = os.path.join(work, 'mc-%s.cfg' % common.trace_hash(sorted((k, repr(v)) for k, v in consts.items())))
    with open(p, 'w') as f:
        f.write(cfg_text(consts, 'Spec', invariants=STRUCT_INVS, properties=['Refines'], view=view))
    r = common.run_tlc('CacheImpl', p, workdir=work, workers=workers, timeout=timeout, heap='6g')
    res = {'constants': {k: (sorted(v) if isinstance(v, (set, frozenset)) else v) for k, v in consts.items()},
           'generated': r.generated, 'distinct': r.distinct, 'depth': r.depth, 'wall': round(r.wall, 1),
           'ok': r.ok, 'violated': r.violated}
    if r.violated:
        res['counterexample'] = parse_counterexample(r.out)
        m = re.search(r'Error: (Invariant \w+ is violated|Action property \w+ is violated)', r.out)
        res['what'] = m.group(1) if m else 'violated'
    elif not r.ok:
        raise common.MachineryError('TLC failed on CacheImpl %s:\n%s' % (consts, r.out[-2500:]))
    return res


def generate(consts, work, num, depth, sd, exhaustive=False, workers=2, timeout=900):
    """behaviours of layer I: list of (ops, pred)"""
    c = dict(consts)
    c['DEPTH'] = depth
    c['Props'] = set()
    p = os.path.join(work, 'gen-%s.cfg' % common.trace_hash(sorted((k, repr(v)) for k, v in c.items())))
    with open(p, 'w') as f:
        f.write(cfg_text(c, 'GSpec', invariants=['Emit']))
    if exhaustive:
        r = common.run_tlc('CacheGen', p, workdir=work, workers=1, timeout=timeout, heap='4g')
    else:
        r = common.run_tlc('CacheGen', p, workdir=work, workers=1, timeout=timeout, heap='2g',
                           simulate='num=%d' % max(1, num), depth=depth + 1,
                           extra=['-seed', str(sd)])
    sim = re.findall(r'The number of states generated: (\d+)', r.out)
    if sim:
        r.generated = int(sim[-1])
    if r.error and 'HIST' not in r.out:
        raise common.MachineryError('behaviour generation failed:\n%s' % r.out[-2500:])
    out = []
    seen = set()
    for m in re.finditer(r'<<"HIST", "(.*)">>', r.out):
        s = m.group(1)
        if s in seen:
            continue
        seen.add(s)
        d = json.loads(s.replace('\\"', '"'))
        out.append((d['ops'], d['pred']))
    return out, r.generated


# ---------------------------------------------------------------------------------------------
# real side
# ---------------------------------------------------------------------------------------------

def real_cfg(consts, module, backend, keymap, how='kw', unkey=False, ni=1):
    ms = consts['MAXSIZE']
    cfg = {'module': module, 'alg': consts['ALG'],
           'maxsize': (None if ms == -1 else ms), 'how': how,
           'purge': consts['PURGE'], 'backend': backend, 'keymap': keymap,
           'nx': consts['NX'], 'ni': ni, 'na': 2, 'unkey': unkey}
    if consts['ALG'] in ('no', 'inf'):
        cfg['maxsize'] = 'default'
    return cfg


def _replay_one(job):
    cfg, ops, pred, wd = job
    os.makedirs(wd, exist_ok=True)
    try:
        t = cd.run_sequence(cfg, ops, wd)
    except Exception as e:   # recorder failure = machinery problem, reported by the parent
        return {'error': '%s: %s' % (type(e).__name__, e), 'cfg': cfg, 'ops': ops}
    finally:
        shutil.rmtree(wd, True)
    drift = None
    if pred is not None and t is not None:
        evs = t['events'][1:]       # skip the decorate event
        for n, (e, p) in enumerate(zip(evs, pred)):
            real = (e['mem'][0], e['info'][0][:3], e['ret'], e['exc'])
            model = (p['mem'], p['stats'], p['ret'], p['exc'])
            if real != model:
                drift = {'step': n + 1, 'op': ops[n], 'real': real, 'model': model}
                break
    t['meta']['drift'] = drift
    return t


def replay_all(jobs, procs=None):
    procs = procs or common.NCPU
    root = common.scratch('replay')
    jobs = [(c, o, p, os.path.join(root, 'r%d' % n)) for n, (c, o, p) in enumerate(jobs)]
    if not jobs:
        return []
    ctx = multiprocessing.get_context('fork')
    with ctx.Pool(min(procs, len(jobs))) as pool:
        res = pool.map(_replay_one, jobs, chunksize=max(1, len(jobs) // (procs * 8)))
    bad = [r for r in res if 'error' in r]
    if bad:
        raise common.MachineryError('recorder failed on %d job(s); first: %s' % (len(bad), bad[0]))
    return res


def signature(trace, verdict):
    idx, clauses = verdict
    e = trace['events'][idx - 1]
    cfg = trace['meta']['config']
    i = e.get('i', 1)
    inst = trace['cfg']['inst'][i - 1]
    sig = {'engine': 'cache', 'clauses': clauses, 'op': e['op'], 'alg': inst['alg'],
           'declared': cfg.get('alg'), 'module': cfg.get('module'), 'how': cfg.get('how', 'kw'),
           'exc': e.get('exc', 'none')}
    if e['op'] == 'call':
        sig['kind'] = trace['cfg']['kind'][e['a'] - 1]
    return sig


def nontrivial(trace):
    """a trace is non-trivial when it contains an eviction/purge, a load from the archive, an
    exception, a fallback, or a management operation that changed state"""
    prev = trace['init']
    for e in trace['events']:
        if e['op'] == 'call':
            i = e['i'] - 1
            before = sum(1 for v in prev['mem'][i] if v)
            after = sum(1 for v in e['mem'][i] if v)
            if e['exc'] != 'none' or (not e['ev'] and e['info'][i][2] != prev['info'][i][2]):
                return True
            if e['ev'] and after <= before:
                return True
        elif e['op'] in ('load', 'loadk', 'dump', 'dumpk', 'clear', 'clone') and \
                (e['mem'] != prev['mem'] or e['archs'] != prev['archs']):
            return True
        prev = e
    return False


class CacheRun(object):
    """one check run for one property"""

    def __init__(self, pid, tier):
        self.pid, self.tier = pid, tier
        self.rep = common.Report(pid, tier)
        self.work = common.scratch('cache')
        self.rng = random.Random(common.seed() * 7919 + int(pid[1:]))
        self.mc = []
        self.jobs = []
        self.gen_states = 0
        self.behaviours = 0

    # -- step 1
    def model_checks(self, configs, workers_each=4):
        par = max(1, common.NCPU // workers_each)
        with ThreadPoolExecutor(max_workers=par) as ex:
            res = list(ex.map(lambda c: model_check(c, self.work, workers=workers_each), configs))
        for r in res:
            self.mc.append(r)
            if r['violated']:
                devs = r['constants'].get('Deviations')
                if devs:
                    continue
                # candidate only: replay on the real code decides
                ops = r.get('counterexample')
                self.rep.note_drift('layer I counterexample (%s) for %s; replayed on the real code' % (
                    r.get('what'), {k: r['constants'][k] for k in ('ALG', 'MAXSIZE', 'PURGE', 'SAFE', 'NARCH')}))
                if ops:
                    self.add_behaviours(_consts_from(r['constants']), [(ops, None)], origin='counterexample')

    # -- step 2/3
    def add_behaviours(self, consts, behaviours, origin='tlc', matrix=None):
        matrix = matrix or self.matrix(consts)
        for (ops, pred) in behaviours:
            self.behaviours += 1
            for (module, backend, keymap, unkey) in matrix:
                cfg = real_cfg(consts, module, backend, keymap, unkey=unkey)
                cfg['origin'] = origin
                # predictions only apply to deterministic algorithms and to the std alphabet
                usepred = pred if consts['ALG'] != 'rr' else None
                self.jobs.append((cfg, ops, usepred))

    def matrix(self, consts, wide=False):
        """(module, backend, keymap, unkey) combinations for a model configuration"""
        narch = consts['NARCH']
        safe = consts['SAFE']
        rng = random.Random(common.seed() * 7919 + int(common.trace_hash(sorted((k, repr(v)) for k, v in consts.items())), 16))
        module = 'safe' if safe else 'std'
        if narch == 0:
            backends = ['plain']
            if wide or self.tier == 'thorough':
                backends += ['null', 'direct-dict']
        else:
            backends = ['dictarch']
            pers = ['file', 'dir', 'sql']
            if wide or self.tier == 'thorough':
                backends += pers
            else:
                backends.append(rng.choice(pers))
        kms = [('str', True, False), ('hash-md5', True, False), ('default',)]
        if not safe:
            kms.append(('raw', True, False))
        out = []
        for b in backends:
            if self.tier == 'thorough' or wide:
                ks = kms
            else:
                ks = [rng.choice(kms)]
            for km in ks:
                if b == 'sql' and km[0] in ('raw', 'default') and not (safe and km[0] == 'default'):
                    km = ('str', True, False)     # sqlite keys must be scalars
                out.append((module, b, km, safe))
        return out

    def generate(self, consts, num, depth, exhaustive=False):
        sd = (common.seed() * 100003 + int(common.trace_hash(sorted((k, repr(v)) for k, v in consts.items())), 16)) % (2 ** 31)
        beh, st = generate(consts, self.work, num, depth, sd, exhaustive=exhaustive)
        self.gen_states += st
        if not exhaustive and len(beh) > num:
            beh = beh[:num]
        self.add_behaviours(consts, beh)
        return len(beh)

    # -- step 3/4/5
    def finish(self, extra_traces=(), level='model_checking', assumptions=()):
        t0 = time.time()
        traces = replay_all(self.jobs) + list(extra_traces)
        t_replay = time.time() - t0
        usable = [t for t in traces if t is not None]
        verdicts, st = common.validate_traces('CacheTrace', [_strip(t) for t in usable], [self.pid])
        rejected = 0
        ndrift = 0
        for t, v in zip(usable, verdicts):
            if v is not None:
                rejected += 1
                sig = signature(t, v)
                self.rep.reject(sig, {'config': t['meta']['config'], 'ops': t['meta']['ops'],
                                      'event_index': v[0], 'clauses': v[1], 'event': t['events'][v[0] - 1],
                                      'replay': 'cache'})
            elif t['meta'].get('drift'):
                ndrift += 1
                self.rep.note_drift('real code differs from layer I but layer P accepts: %s %s' % (
                    t['meta']['config'], t['meta']['drift']))
        hashes = set()
        nontriv = 0
        for t in usable:
            h = common.trace_hash([t['cfg'], t['events']])
            if h not in hashes:
                hashes.add(h)
                if nontrivial(t):
                    nontriv += 1
        sample = None
        for t in usable:
            if nontrivial(t):
                sample = {'config': t['meta']['config'], 'ops': t['meta']['ops'][:12],
                          'events': [{k: e[k] for k in ('op', 'a', 'ret', 'exc', 'ev', 'mem', 'info') if k in e}
                                     for e in t['events'][:6]]}
                break
        mc_states = sum(r['distinct'] for r in self.mc)
        mc_trans = sum(r['generated'] for r in self.mc)
        cov = {
            'states': mc_states + st['states'],
            'transitions': mc_trans + self.gen_states + st['events'],
            'traces_validated_against_impl': len(usable),
            'samples': [sample] if sample else [{'note': 'no non-trivial trace'}],
            'evaluations': len(usable),
            'distinct_nontrivial': nontriv,
            'rule': 'one evaluation = one operation sequence replayed on one real decorator configuration and '
                    'validated against layer P; distinct by hash of (config, events); non-trivial = contains an '
                    'eviction/purge, a load from the archive, an exception, a fallback or a state-changing '
                    'management operation',
            'exhaustive': False,
            'model_checking': {'layer_I_runs': self.mc, 'layer_I_states': mc_states,
                               'layer_I_transitions': mc_trans,
                               'behaviours_generated': self.behaviours,
                               'generation_states': self.gen_states},
            'trace_validation': {'traces': len(usable), 'events': st['events'], 'rejected': rejected,
                                 'states': st['states'], 'wall_s': round(st['wall'], 1),
                                 'replay_wall_s': round(t_replay, 1), 'drift_traces': ndrift},
        }
        return self.rep.finish(level, cov, assumptions)


def _strip(t):
    return {'cfg': t['cfg'], 'init': t['init'], 'events': t['events']}


def _consts_from(c):
    out = dict(c)
    for k in ('ARGS', 'OPS', 'Deviations', 'Props'):
        out[k] = set(out.get(k) or ())
    return out


ASSUME = [
    'the stub function is deterministic; F(x,y)=1000+10x+y',
    'real cache keys are mapped to key ids through f.key() of the first instance (C18 checks that key() is the storage key)',
    'TLC exhaustive runs are bounded by the constants listed under model_checking; beyond them only simulation walks',
    'backends not constructible offline (HDF5, sqlalchemy) are not exercised',
]


# ---------------------------------------------------------------------------------------------
# per-property plans
# ---------------------------------------------------------------------------------------------

def plan_common(run, pid, algs, ops, args, narchs=(0, 1), purges=(False,), safes=(False,), maxsizes=(1, 2),
                depth_q=6, depth_t=9, qmult_exh=2, sim_num=(24, 200), sim_depth=(30, 60), exh_depth=(4, 6),
                exh_args=None, exh_ops=None):
    thorough = run.tier == 'thorough'
    mcs = []
    for alg in algs:
        for ms in (maxsizes if alg not in ('no', 'inf') else (2,)):
            for narch in narchs:
                for purge in (purges if (narch and alg not in ('no', 'inf')) else (False,)):
                    for safe in safes:
                        mcs.append(base_constants(ALG=alg, MAXSIZE=ms, PURGE=purge, SAFE=safe, QMULT=qmult_exh,
                                                  ARGS=set(args) | ({run_unkey(3)} if safe else set()),
                                                  OPS=set(ops), NARCH=narch,
                                                  DEPTH=depth_t if thorough else depth_q, Props={pid}))
    if not thorough and len(mcs) > 12:
        keep = mcs[:]
        run.rng.shuffle(keep)
        mcs = keep[:12]
    run.model_checks(mcs)
    # behaviours: simulation walks (QMULT = 10 as in the code), every algorithm x archive x maxsize ...
    gens = []
    for alg in algs:
        for narch in narchs:
            for safe in safes:
                for ms in (maxsizes if alg not in ('no', 'inf') else (2,)):
                    purge = run.rng.choice(list(purges)) if narch else False
                    gens.append(base_constants(ALG=alg, MAXSIZE=ms, PURGE=purge, SAFE=safe, QMULT=10,
                                               ARGS=set(args) | ({run_unkey(3)} if safe else set()),
                                               OPS=set(ops), NARCH=narch))
    num = sim_num[1] if thorough else sim_num[0]
    dep = sim_depth[1] if thorough else sim_depth[0]
    with ThreadPoolExecutor(max_workers=common.NCPU) as ex:
        list(ex.map(lambda c: run.generate(c, num, dep), gens))
    # ... and ALL operation sequences of a short length over a reduced alphabet
    ed = exh_depth[1] if thorough else exh_depth[0]
    ea = set(exh_args or list(args)[:3])
    eops = set(exh_ops or (set(ops) & {'call', 'clear', 'dump', 'load'}))
    exh = []
    for alg in algs:
        exh.append(base_constants(ALG=alg, MAXSIZE=2, PURGE=False, SAFE=False, QMULT=10,
                                  ARGS=ea, OPS=eops, NARCH=max(narchs)))
    with ThreadPoolExecutor(max_workers=max(1, common.NCPU // 4)) as ex:
        list(ex.map(lambda c: run.generate(c, 0, ed, exhaustive=True), exh))


def run_unkey(nx):
    return nx + 6


def check_C06(tier):
    run = CacheRun('C06', tier)
    plan_common(run, 'C06', ['lfu', 'lru', 'mru', 'rr'],
                ops=['call', 'clear', 'lookup', 'dump', 'arch_off', 'arch_on'],
                args=[1, 2, 3, 4, 7], narchs=(0, 1), purges=(False,), maxsizes=(1, 2),
                depth_q=7, depth_t=10)
    return run.finish(assumptions=ASSUME + ['entries that entered memory through a bulk load() have no recorded use; '
                                            'the policy clause is not judged while such entries are resident (C05 covers the bound)'])


CHECKS = {'C06': check_C06}


def main(pid, tier):
    return CHECKS[pid](tier)

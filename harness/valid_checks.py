"""Engine `valid`: property C19 (klepto.validate / klepto.isvalid agree with Python's argument binding).

1. TLC checks layer I (specs/ValidImpl.tla: signature() + validate() transcribed) against the oracle of
   layer P (specs/ValidP.tla: Python's binding, KeyP.PyBind, extended to bound methods, callable instances
   and functools.partial) for every (target, call) of the catalogue; one more run per named deviation must
   produce a counterexample.
2. TLC emits the catalogue (specs/ValidGen.tla); every target is materialised as a real callable and every
   call is put to klepto.isvalid, klepto.validate and to the interpreter itself (a side-effect-counting stub).
3. TLC judges every recorded case (specs/ValidTrace.tla).  ORACLE.* clauses compare the transcription of
   Python's binding with the interpreter: a failure there is a machinery error, never a violation.
"""
import functools
import json
import multiprocessing
import os
import random
import re
import time

from . import common

DEVIATIONS = {
    'kwonly_unknown': dict(Shapes={21, 41, 44}, Kinds={'func'}, MAXPA=0, PKNames=set(), MAXPK=0, MAXNP=2,
                           KwNames={'k', 'x'}, MAXK=1),
    'bound_self_counted': dict(Shapes={0, 3, 84}, Kinds={'method', 'callable'}, MAXPA=2, PKNames={'y'}, MAXPK=1, MAXNP=1,
                               KwNames={'y'}, MAXK=1),
    'posonly_partial_keyword': dict(Shapes={161, 244}, Kinds={'func'}, MAXPA=1, PKNames={'x'}, MAXPK=1, MAXNP=1,
                                    KwNames={'y'}, MAXK=1),
    'posonly_unknown': dict(Shapes={161, 244, 324}, Kinds={'func'}, MAXPA=0, PKNames=set(), MAXPK=0, MAXNP=2,
                            KwNames={'x', 'y'}, MAXK=1),
}
ALL_SHAPES = set(range(480))
CURRENT = {'posonly_partial_keyword'}      # deviations that describe the code as it is now (a recorded finding)
PO_SHAPES = {161, 162, 164, 167, 244, 247, 324, 327, 405, 254}      # shapes with positional-only parameters (ids 160..479)
QUICK_SHAPES = {0, 1, 2, 3, 4, 5, 7, 8, 14, 17, 24, 27, 34, 41, 44, 47, 54, 64, 67, 74, 84, 87, 94, 104, 107, 114,
                124, 127, 134, 141, 144, 147, 154, 159}
EVALS = []


def cfg_text(consts, spec, invariants=()):
    lines = ['SPECIFICATION %s' % spec, 'CONSTANTS']
    for k, v in consts.items():
        lines.append('  %s = %s' % (k, '{}' if isinstance(v, (set, frozenset)) and not v else common.tla_value(v)))
    lines += ['INVARIANT %s' % i for i in invariants]
    lines.append('CHECK_DEADLOCK FALSE')
    return '\n'.join(lines) + '\n'


def _h(consts):
    return common.trace_hash(sorted((k, repr(sorted(v) if isinstance(v, (set, frozenset)) else v)) for k, v in consts.items()))


def tlc_impl(consts, work, workers=8):
    p = os.path.join(work, 'impl-%s.cfg' % _h(consts))
    open(p, 'w').write(cfg_text(consts, 'Spec', ['ImplOK']))
    r = common.run_tlc('ValidImpl', p, workdir=work, workers=workers, timeout=2400, heap='6g')
    res = {'constants': {k: (sorted(v) if isinstance(v, (set, frozenset)) else v) for k, v in consts.items()},
           'generated': r.generated, 'distinct': r.distinct, 'wall': round(r.wall, 1), 'violated': r.violated}
    if r.violated:
        i = r.out.find('State 2')
        res['counterexample'] = re.sub(r'\s+', ' ', r.out[i:i + 900])
    elif not r.ok:
        raise common.MachineryError('ValidImpl run failed:\n%s' % r.out[-2500:])
    return res


def tlc_catalogue(consts, work):
    p = os.path.join(work, 'cat-%s.cfg' % _h(consts))
    open(p, 'w').write(cfg_text(consts, 'GSpec', ['Emit']))
    r = common.run_tlc('ValidGen', p, workdir=work, workers=1, timeout=900, heap='4g')
    targets = [json.loads(m.group(1).replace('\\"', '"')) for m in re.finditer(r'<<"TARGET", "(.*)">>', r.out)]
    m = re.search(r'<<"CALLS", "(.*)">>', r.out)
    if not targets or not m:
        raise common.MachineryError('ValidGen produced no catalogue:\n%s' % r.out[-2000:])
    calls = sorted(json.loads(m.group(1).replace('\\"', '"')), key=lambda c: (c['np'], c['k']))
    targets.sort(key=lambda t: json.dumps(t, sort_keys=True))
    return targets, calls, r.distinct


# ---------------------------------------------------------------------------------------------
# the real side
# ---------------------------------------------------------------------------------------------

def param_list(sig):
    params = []
    for n, p in enumerate(sig['pos']):
        params.append(p['n'] + ('=1' if p['hd'] else ''))
        if p.get('po') and not (n + 1 < len(sig['pos']) and sig['pos'][n + 1].get('po')):
            params.append('/')           # the parameters so far are positional-only
    if sig['va']:
        params.append('*a')
    elif sig['ko']:
        params.append('*')
    for p in sig['ko']:
        params.append(p['n'] + ('=1' if p['hd'] else ''))
    if sig['vk']:
        params.append('**kw')
    return ', '.join(params)


def make_target(t):
    """a real callable for a catalogue target; its body only counts evaluations"""
    pl = param_list(t['sig'])
    if t['kind'] == 'func':
        src = 'def stub(%s):\n    EVALS.append(1)\n    return 0\n' % pl
        # a module-level function like any other: successive targets re-define `stub` in the same module
        ns = {'EVALS': EVALS, '__name__': 'harness_valid_stubs'}
        exec(src, ns)
        base = ns['stub']
    else:
        name = 'meth' if t['kind'] == 'method' else '__call__'
        src = 'class Stub(object):\n    def %s(self%s):\n        EVALS.append(1)\n        return 0\n' % (name, (', ' + pl) if pl else '')
        if t.get('falsy'):        # an instance that is false in a boolean context (an empty container, a zero, ...)
            src += '    def __len__(self):\n        return 0\n'
        if t.get('hasargs'):      # an instance that happens to have an attribute called args (like every exception)
            src += '    args = (5, 6)\n'

        ns = {'EVALS': EVALS, '__name__': 'harness_valid_stubs'}
        exec(src, ns)
        inst = ns['Stub']()
        base = inst.meth if t['kind'] == 'method' else inst
    desc = src
    if t.get('wraps'):
        # the target is a functools.wraps-decorated wrapper around a function with a DIFFERENT signature: a call binds
        # against the wrapper's own parameters (inspect.signature would follow __wrapped__, getfullargspec does not)
        ns2 = {'EVALS': EVALS, '__name__': 'harness_valid_stubs'}
        exec('def wrapped_inner(q, r=1, *, zz, k=2):\n    return 1\n', ns2)
        base = functools.wraps(ns2['wrapped_inner'])(base)
        desc = 'def wrapped_inner(q, r=1, *, zz, k=2): ...\n@functools.wraps(wrapped_inner)\n' + desc
    if t['partial']:
        base = functools.partial(base, *([1] * t['pa']), **{n: 1 for n in t['pk']})
        desc += 'functools.partial(%s, %s)' % ('stub' if t['kind'] == 'func' else 'Stub().meth' if t['kind'] == 'method' else 'Stub()',
                                               ', '.join(['1'] * t['pa'] + ['%s=1' % n for n in t['pk']]))
    return base, desc


def run_target(klepto, t, calls):
    f, desc = make_target(t)
    events = []
    VALS = [1, None, 0, '', 2.5]        # (validity does not depend on the values: falsy and None values on purpose)
    for c in calls:
        ci = c['np'] * 3 + len(c['k'])       # (a function of the call itself, so that a replayed case uses the same values)
        args = [VALS[(ci + j) % len(VALS)] for j in range(c['np'])]
        kwds = {n: VALS[(ci + j + 2) % len(VALS)] for j, n in enumerate(c['k'])}
        del EVALS[:]
        try:
            f(*args, **kwds)
            actual = 'ok'
        except TypeError:
            actual = 'TypeError'
        except Exception as ex:           # cannot happen with this stub
            actual = type(ex).__name__
        if actual == 'ok' and len(EVALS) != 1:
            actual = 'evals=%d' % len(EVALS)
        del EVALS[:]
        try:
            iv = repr(klepto.isvalid(f, *args, **kwds))
        except BaseException as ex:
            iv = 'raised ' + type(ex).__name__
        try:
            r = klepto.validate(f, *args, **kwds)
            va = 'ok' if r is None else 'returned %r' % (r,)
        except Exception as ex:
            va = type(ex).__name__
        events.append({'call': c, 'isvalid': iv, 'validate': va, 'actual': actual, 'evals': len(EVALS)})
    return {'t': t, 'events': events, 'meta': {'desc': desc}}


def _run_chunk(job):
    targets, calls = job
    klepto = common.import_klepto()
    out = [run_target(klepto, t, calls) for t in targets]
    # plain functions (and partials over them) once more as functools.wraps-decorated wrappers
    out += [run_target(klepto, dict(t, wraps=True), calls) for t in targets if t['kind'] == 'func']
    # bound methods and callable instances once more with an instance that is falsy
    out += [run_target(klepto, dict(t, falsy=True), calls) for n, t in enumerate(targets) if t['kind'] != 'func' and n % 2 == 0]
    out += [run_target(klepto, dict(t, hasargs=True), calls) for n, t in enumerate(targets) if t['kind'] == 'callable' and n % 2 == 1]
    # callable instances that carry the metadata of a function (a class-based decorator that called functools.update_wrapper on
    # itself): they have a __name__, a __wrapped__, ... like a function, and are still called through __call__
    out += [run_target(klepto, dict(t, wraps=True), calls) for n, t in enumerate(targets) if t['kind'] == 'callable' and n % 3 == 0]
    return out


def real_traces(targets, calls):
    n = max(1, common.NCPU * 4)
    chunks = [targets[i::n] for i in range(n)]
    chunks = [c for c in chunks if c]
    ctx = multiprocessing.get_context('fork')
    with ctx.Pool(common.NCPU) as pool:
        res = pool.map(_run_chunk, [(c, calls) for c in chunks])
    return [t for r in res for t in r]


def signature(t, v):
    e = t['events'][v[0] - 1]
    tg = t['t']
    kw = set(e['call']['k'])
    kon = {p['n'] for p in tg['sig']['ko']}
    return {'engine': 'valid', 'clauses': v[1], 'kind': tg['kind'], 'partial': tg['partial'], 'wraps': bool(tg.get('wraps')),
            'partial_over_bound': bool(tg['partial'] and tg['kind'] != 'func'),
            'kwonly': bool(kon), 'varargs': tg['sig']['va'], 'varkw': tg['sig']['vk'],
            'posonly': any(p.get('po') for p in tg['sig']['pos']), 'falsy_instance': bool(tg.get('falsy')), 'instance_has_args': bool(tg.get('hasargs')),
            # a partial that fixes a KEYWORD named like a positional-only parameter of the function
            'partial_kw_posonly': bool(tg['partial']) and any(n in {p['n'] for p in tg['sig']['pos'] if p.get('po')} for n in tg['pk']),
            'isvalid': e['isvalid'], 'validate': e['validate'], 'actual': e['actual']}


def judge(rep, pid, traces):
    strip = [{'t': t['t'], 'events': t['events']} for t in traces]
    verdicts, st = common.validate_traces('ValidTrace', strip, [pid], per_slice=100, multi=True)
    oracle = nrej = 0
    for t, vs in zip(traces, verdicts):
        for v in (vs or ()):
            if any(c.startswith('ORACLE') for c in v[1]):
                oracle += 1
                continue
            nrej += 1
            e = t['events'][v[0] - 1]
            rep.reject(signature(t, v), {'target': t['t'], 'source': t['meta']['desc'], 'call': e['call'],
                                         'event': e, 'clauses': v[1]})
    if oracle:
        raise common.MachineryError('%d case(s) rejected by ORACLE.* clauses: the TLA+ transcription of Python\'s '
                                    'argument binding disagrees with the interpreter' % oracle)
    return st, nrej


def main(pid, tier):
    assert pid == 'C19'
    rep = common.Report(pid, tier)
    thorough = tier == 'thorough'
    work = common.scratch('valid')
    consts = dict(Shapes=ALL_SHAPES if thorough else QUICK_SHAPES | PO_SHAPES, Kinds={'func', 'method', 'callable'},
                  MAXPA=3 if thorough else 2, PKNames={'x', 'y', 'k', 'w'}, MAXPK=2,
                  MAXNP=4 if thorough else 3, KwNames={'x', 'y', 'z', 'k', 'w'}, MAXK=2 if not thorough else 3,
                  Deviations=set())
    mcs = []
    shapes = sorted(consts['Shapes'])
    from concurrent.futures import ThreadPoolExecutor
    with ThreadPoolExecutor(max_workers=4) as ex:
        for r in ex.map(lambda ch: tlc_impl(dict(consts, Shapes=set(ch)), work, workers=4), [shapes[i::4] for i in range(4)]):
            mcs.append(r)
            if r['violated']:
                rep.note_drift('layer I counterexample with no deviation enabled (the catalogue is replayed on the real code): %s'
                               % r['counterexample'][:500])
    devs = {}
    for d, over in sorted(DEVIATIONS.items()):
        r = tlc_impl(dict(over, Deviations={d}), work, workers=2)
        mcs.append(r)
        devs[d] = {'counterexample_found': r['violated']}
        if not r['violated']:
            rep.notes.append('deviation %s: no counterexample (model insensitive?)' % d)
    targets, calls, cat_states = tlc_catalogue(consts, work)
    t0 = time.time()
    traces = real_traces(targets, calls)
    t_real = time.time() - t0
    st, nrej = judge(rep, pid, traces)
    ncases = sum(len(t['events']) for t in traces)
    valid_cases = sum(1 for t in traces for e in t['events'] if e['actual'] == 'ok')
    classes = {}
    for t in traces:
        k = '%s%s%s%s' % (t['t']['kind'], '+wraps' if t['t'].get('wraps') else '', '+falsy' if t['t'].get('falsy') else '', '+partial' if t['t']['partial'] else '')
        c = classes.setdefault(k, {'targets': 0, 'valid': 0, 'invalid': 0})
        c['targets'] += 1
        for e in t['events']:
            c['valid' if e['actual'] == 'ok' else 'invalid'] += 1
    s0 = next((t for t in traces if t['t']['partial'] and t['t']['sig']['ko']), traces[0])
    sample = {'target': s0['meta']['desc'], 'cases': s0['events'][:6]}
    cov = {'states': sum(m['distinct'] for m in mcs) + cat_states + st['states'],
           'transitions': sum(m['generated'] for m in mcs) + ncases,
           'traces_validated_against_impl': len(traces), 'samples': [sample],
           'evaluations': ncases,
           'distinct_nontrivial': len(traces),
           'rule': 'one trace = one target (signature shape x kind of callable x partial) with every call of the catalogue; '
                   'one evaluation = one (target, call) put to isvalid, validate and the interpreter; targets are distinct by '
                   'construction (TLC enumerates a set); every target has both valid and invalid calls or is counted anyway '
                   '(distinct_nontrivial = number of distinct targets)',
           'exhaustive': True,
           'cases_valid': valid_cases, 'cases_invalid': ncases - valid_cases, 'by_kind': classes,
           'named_deviations': devs,
           'model_checking': {'layer_I_runs': mcs},
           'trace_validation': {'traces': len(traces), 'events': ncases, 'rejected_cases': nrej,
                                'wall_s': round(st['wall'], 1), 'real_wall_s': round(t_real, 1)}}
    return rep.finish('model_checking', cov, [
        'signature shapes: 0-3 positional-or-keyword parameters with a defaulted suffix, optional *args, keyword-only '
        'parameters (none / required / defaulted / one of each), optional **kw (160 shapes x 3 positional-only modes); plain functions, bound methods, '
        'callable instances and functools.partial over each, fixing up to MAXPA positionals and up to 2 keywords (including an '
        'unknown name); calls with up to MAXNP positionals and up to MAXK keywords (including an unknown name)',
        'positional-only parameters (none / the first / all positional ones, shape ids 160-479) and functools.wraps wrappers are included; '
        'nested partials, builtins and classes as callables are not in the catalogue',
        'exhaustive within these bounds only'])


def replay(pid, path):
    """re-run the recorded case on the current tree and re-judge it"""
    case = json.load(open(path))['case']
    klepto = common.import_klepto()
    t = run_target(klepto, case['target'], [case['call']])
    verdicts, _ = common.validate_traces('ValidTrace', [{'t': t['t'], 'events': t['events']}], [pid], multi=True)
    if not verdicts[0]:
        print('replay: accepted on the current tree: %s' % json.dumps(t['events'][0]))
        return common.EXIT_OK
    print('VIOLATION property=%s replay=%s' % (pid, path))
    print('  clauses: %s event: %s' % (verdicts[0][0][1], json.dumps(t['events'][0])))
    return common.EXIT_VIOLATION

"""Real side of the `dict` engine (C03, C04): runs mapping-protocol operation sequences on real klepto archives
and records, after every operation, its result / exception and the contents of every location as read back
through the operating handle (`c`) and through a fresh handle on the same location (`cf`).

Keys and values are small ids in the traces; this module owns the mapping between ids and real Python
keys / values for every key set and value set.
"""
import os
import sys

NK, NL = 4, 3
BAD = 9
DEFAULT = 77


class Unencodable(object):
    """a value no encoding can store: pickling raises, it has no JSON form, no importable source, no SQL type"""
    def __reduce__(self):
        raise TypeError('this object cannot be pickled')

    def __eq__(self, other):
        return isinstance(other, Unencodable)

    def __hash__(self):
        return 9


# ---------------------------------------------------------------------------------------------
# key sets: id (1..NK) -> real key
# ---------------------------------------------------------------------------------------------

def key_sets(klepto):
    K = klepto.keymaps
    sets = {
        'str': ['k1', 'k2', 'k3', 'k4'],
        'alias-int-str': [1, '1', 'k3', 2],           # str(1) == str('1')
        'alias-dash': ['a-b', 'a_b', 'k3', 'ab'],      # '-' -> '_' in directory names
        'dash': ['a-b', '2024-01-31', 'x_y', '-'],     # dashes and underscores WITHOUT an aliasing partner
        'slash': ['x/y', 'x', 'a/b/c', '/abs'],        # path separators inside keys (a stringmap key of a path argument)
        'prefixy': ['K_mean', 'TASK_7', '.I_x', 'K_K_'],
        'prefixy-id': ['K_mean', 'TASK_7', 'xI_', 'K_K_'],  # the same, identifiers only (source-text directory archives)  # contain the markers klepto uses in directory names (K_ entries, I_ staging)
        'tuple': [(1, 2), (1, '2'), ('a',), 'a'],
        'int': [1, 2, 3, 10],
        # longer than a file name may be (NAME_MAX = 255), equal in their first 280 characters
        'long': ['v' * 280 + 'k1', 'v' * 280 + 'k2', 'v' * 280 + 'k3', 'v' * 290],
        'keymap-pickle': [K.picklemap()(1), K.picklemap()(1, 2), K.picklemap()('a'), K.picklemap()(x=1)],
        'keymap-hash': [K.hashmap(algorithm='md5')(1), K.hashmap(algorithm='md5')(1, 2),
                        K.hashmap(algorithm='md5')('a'), K.hashmap(algorithm='md5')(x=1)],
        'keymap-str': [K.stringmap()(1), K.stringmap()(1, 2), K.stringmap()('a'), K.stringmap()(x=1)],
        'keymap-raw': [K.keymap()(1), K.keymap()(1, 2), K.keymap()('a'), K.keymap()(x=1)],
    }
    return sets


# which key sets a backend accepts ("all keys the backend accepts")
def keysets_for(backend):
    base = backend.split('+')[0]
    if base in ('file-json', 'dir-json'):
        # (JSON object keys are strings: the int key set demonstrates a recorded finding)
        return ['str', 'alias-dash', 'dash', 'slash', 'prefixy', 'keymap-hash', 'keymap-str', 'long', 'int']
    if base == 'dir-py':
        # the import-based reader needs K_<key> to be a module name: identifier-like strings only
        return ['str', 'alias-dash', 'dash', 'prefixy-id', 'keymap-hash']
    if base.startswith('sql'):
        return ['str', 'alias-int-str', 'alias-dash', 'dash', 'slash', 'prefixy', 'int', 'keymap-pickle', 'keymap-hash', 'keymap-str', 'long']
    return ['str', 'alias-int-str', 'alias-dash', 'dash', 'slash', 'prefixy', 'tuple', 'int', 'keymap-pickle', 'keymap-hash', 'keymap-str', 'keymap-raw', 'long']


# ---------------------------------------------------------------------------------------------
# value sets: id (any positive int) <-> real value
# ---------------------------------------------------------------------------------------------

def enc_value(valset, v):
    if v == BAD:
        return Unencodable()
    if valset == 'int':
        return v
    if valset == 'nonev':         # ints, except that the second value of every key (10*k + 2) is None
        return None if v % 10 == 2 else v
    if valset == 'none12':        # ints, except that 12 is None (persist engine: values are not tied to keys)
        return None if v == 12 else v
    if valset == 'rich':          # pickle-based encodings
        return {'a': [v, 2.5, (v, None)], 'b': b'\x00\xff', 'inf': float('inf'), 'neg': -v}
    if valset == 'json':
        return [v, {'a': 2.5, 'b': 'txt', 'n': None}]
    if valset == 'src':           # source text: literals
        return [v, {'a': 2.5}, (v, 'txt'), None]
    if valset == 'srcinf':
        return [v, float('inf')]
    if valset == 'uni':           # text beyond ASCII (latin-1 and beyond), in every encoding that stores strings
        return [v, 'caf\u00e9', '\u65e5\u672c']
    if valset == 'sql':           # str / int / float / bytes
        return ['txt%d' % v, v + 0.5, b'\x00\xff' + str(v).encode(), v][v % 4]
    if valset == 'func':          # pickled by dill: a function object (compared by what it computes)
        return _mkfunc(v)
    if valset == 'mainfunc':      # a function defined in THIS process's __main__ (as an interactive user's would be)
        return _mkmainfunc(v)
    if valset == 'maininst':      # an instance of a class defined in THIS process's __main__
        return _mkmaininst(v)
    raise ValueError(valset)


_FUNCS = {}


def _mkfunc(v):
    if v not in _FUNCS:
        ns = {}
        exec('def stored_function():\n    return %d\n' % v, ns)
        _FUNCS[v] = ns['stored_function']
    return _FUNCS[v]


def _mkmainfunc(v):
    """def main_fn_<v>_<pid>(): return v  - in the namespace of __main__, under a name only this process has: a pickler
    that stores functions by reference writes something no other process can read"""
    main = sys.modules['__main__']
    name = 'main_fn_%d_%d' % (v, os.getpid())
    if not hasattr(main, name):
        ns = {'__name__': '__main__'}
        exec('def %s():\n    return %d\n' % (name, v), ns)
        setattr(main, name, ns[name])
    return getattr(main, name)


def _mkmaininst(v):
    """an instance of a class that exists only in THIS process's __main__ (under a name no other process has)"""
    main = sys.modules['__main__']
    name = 'MainCls_%d' % os.getpid()
    if not hasattr(main, name):
        ns = {'__name__': '__main__'}
        exec('class %s(object):\n    def __init__(self, v):\n        self.v = v\n' % name, ns)
        ns[name].__qualname__ = name
        setattr(main, name, ns[name])
    return getattr(main, name)(v)


def dec_value(valset, x, kid=0):
    """real value -> id; negative = not a value of this set.  kid: the id of the key it was stored under, when known"""
    if isinstance(x, Unencodable):
        return BAD
    try:
        if valset == 'maininst':
            cand = getattr(x, 'v', None)
            ok = type(x).__name__.startswith('MainCls_') and isinstance(cand, int) and not isinstance(cand, bool) and cand > 0
            return cand if ok else -8
        if valset == 'nonev':
            if x is None:
                return 10 * kid + 2 if kid > 0 else -8
            if isinstance(x, int) and not isinstance(x, bool) and x > 0 and x % 10 != 2:
                return x
            return -8
        if valset == 'none12':
            if x is None:
                return 12
            return x if isinstance(x, int) and not isinstance(x, bool) and x > 0 and x != 12 else -8
        if valset == 'int':
            cand = x
        elif valset == 'rich':
            cand = x['a'][0]
        elif valset in ('json', 'src', 'srcinf', 'uni'):
            cand = x[0]
        elif valset == 'sql':
            if isinstance(x, str):
                cand = int(x[3:])
            elif isinstance(x, float):
                cand = int(x - 0.5)
            elif isinstance(x, bytes):
                cand = int(x[2:].decode())
            else:
                cand = x
        elif valset in ('func', 'mainfunc'):
            cand = x()
        else:
            return -8
        if isinstance(cand, bool) or not isinstance(cand, int) or cand <= 0:
            return -8
        if valset == 'func':
            return cand if callable(x) and x.__name__ == 'stored_function' else -8
        if valset == 'mainfunc':
            return cand if callable(x) and x.__name__.startswith('main_fn_%d_' % cand) else -8
        ref = enc_value(valset, cand)
        if type(ref) is not type(x) or ref != x:
            return -8
        return cand
    except Exception:
        return -8


def valsets_for(backend):
    base = backend.split('+')[0]
    if base in ('dict', 'null'):
        return ['int', 'rich', 'func', 'nonev', 'uni']
    if base in ('file', 'dir', 'dir-fast', 'dir-compressed'):
        return ['int', 'rich', 'func', 'mainfunc', 'maininst', 'nonev', 'uni'] if base in ('file', 'dir') else ['int', 'rich', 'nonev', 'uni']
    if base in ('file-json', 'dir-json'):
        return ['int', 'json', 'nonev', 'uni']
    if base in ('file-py', 'dir-py'):
        return ['int', 'src', 'srcinf', 'nonev', 'uni']
    return ['int', 'sql', 'nonev']


BACKENDS = ['dict', 'null', 'file', 'file-json', 'file-py', 'dir', 'dir-fast', 'dir-compressed', 'dir-json', 'dir-py',
            'sql-mem', 'sql-file', 'dict+cache', 'file+cache', 'dir+cache', 'sql-file+cache']
PERSISTENT = {'file', 'file-json', 'file-py', 'dir', 'dir-fast', 'dir-compressed', 'dir-json', 'dir-py', 'sql-file'}


class Recorder(object):
    def __init__(self, klepto, backend, keyset, valset, workdir):
        self.klepto = klepto
        self.A = klepto._archives
        self.backend = backend
        self.base = backend.split('+')[0]
        self.cached = backend.endswith('+cache')
        self.keys = key_sets(klepto)[keyset]
        self.valset = valset
        self.w = workdir
        self.h = [None] * NL
        self.h[0] = self.open_loc(1)
        self.h[1] = self.open_loc(2)
        self.mem_sql = {}

    # locations: distinct names in one directory / one database
    def locname(self, x):
        b, w = self.base, self.w
        if b in ('file',):
            return os.path.join(w, 'f%d.pkl' % x)
        if b == 'file-json':
            return os.path.join(w, 'f%d.json' % x)
        if b == 'file-py':
            # all locations but the first are named without the suffix, which the library then appends (open and copy alike)
            return os.path.join(w, 'fsrc%d.py' % x if x == 1 else 'fsrc%d' % x)
        if b.startswith('dir'):
            return os.path.join(w, 'd%d' % x)
        if b == 'sql-file':
            return 'sqlite:///%s?table=memo%d' % (os.path.join(w, 's.db'), x)
        return 'name%d' % x

    def raw_open(self, x):
        A, b = self.A, self.base
        name = self.locname(x)
        if b == 'dict':
            return A.dict_archive()
        if b == 'null':
            return A.null_archive()
        if b == 'file':
            return A.file_archive(name)
        if b == 'file-json':
            return A.file_archive(name, protocol='json')
        if b == 'file-py':
            return A.file_archive(name, serialized=False)
        if b == 'dir':
            return A.dir_archive(name)
        if b == 'dir-fast':
            return A.dir_archive(name, fast=True)
        if b == 'dir-compressed':
            return A.dir_archive(name, compression=3)
        if b == 'dir-json':
            return A.dir_archive(name, protocol='json')
        if b == 'dir-py':
            return A.dir_archive(name, serialized=False)
        if b == 'sql-mem':
            return A.sqltable_archive(None, 'memo')      # every in-memory archive owns a private database: same name, distinct stores
        if b == 'sql-file':
            return A.sqltable_archive('sqlite:///' + os.path.join(self.w, 's.db'), 'memo%d' % x)
        raise ValueError(b)

    def open_loc(self, x):
        a = self.raw_open(x)
        if self.cached:
            return self.A.cache(archive=a)
        return a

    # ids <-> real
    def K(self, k):
        return self.keys[k - 1]

    def V(self, v):
        return enc_value(self.valset, v)

    def kid(self, rk):
        for i, k in enumerate(self.keys, 1):
            if type(k) is type(rk) and k == rk:
                return i
        return -7

    def vid(self, x, kid=0):
        return dec_value(self.valset, x, kid)

    def project(self, d):
        out = [0] * NK
        extra = False
        for rk, v in d.items():
            i = self.kid(rk)
            if i < 0:
                extra = True
                continue
            out[i - 1] = self.vid(v, i)
        if extra:
            out[NK - 1] = -7       # a key that was never stored
        return out

    def keyarg(self, o, ks):
        """the collection of keys handed to popkeys: a list, a tuple, a one-shot iterator or the key view of a dict"""
        keys = [self.K(k) for k in ks]
        how = o.get('how', 'list')
        if how == 'iter':
            return iter(keys)
        if how == 'tuple':
            return tuple(keys)
        if how == 'view' and len(set(ks)) == len(ks):       # (dict.fromkeys keeps the order of the list)
            try:
                return dict.fromkeys(keys).keys()
            except TypeError:
                return keys
        return keys

    def read(self, h):
        if self.cached:
            return dict(dict.items(h))
        return dict(h.items())

    def snapshot(self):
        c, cf, n, kk = [], [], [], []
        usable = True
        for x in range(1, NL + 1):
            h = self.h[x - 1]
            if h is None:
                c.append([0] * NK)
                cf.append([0] * NK)
                n.append(0)
                kk.append([])
                continue
            try:
                d = self.read(h)
                c.append(self.project(d))
                n.append(len(h))
                ks = sorted(self.kid(k) for k in list(h.keys()))
                kk.append(ks)
            except Exception:
                usable = False
                c.append([-9] * NK)
                n.append(-9)
                kk.append([-9])
            # a fresh handle on the same location (persistent backends, used directly)
            if self.base in PERSISTENT and not self.cached:
                try:
                    cf.append(self.project(dict(self.raw_open(x).items())))
                except Exception:
                    cf.append([-9] * NK)
            else:
                cf.append(list(c[-1]))
        return {'c': c, 'cf': cf, 'n': n, 'kk': kk, 'usable': usable}

    def run(self, ops):
        init = self.snapshot()
        init['ex'] = [h is not None for h in self.h]
        events = []
        for o in ops:
            e = {'op': o['op'], 'loc': o.get('loc', 1), 'k': o.get('k', 1), 'v': o.get('v', 0), 'k2': o.get('k2', 1),
                 'v2': o.get('v2', 0), 'd': o.get('d', 0), 'ks': o.get('ks', []), 'o': o.get('o', 1),
                 'ri': 0, 'rs': [], 'exc': 'none'}
            h = self.h[e['loc'] - 1]
            K, V = self.K, self.V
            op = e['op']
            try:
                if op == 'set':
                    h[K(e['k'])] = V(e['v'])
                elif op == 'setbad':
                    h[K(e['k'])] = V(BAD)
                elif op == 'get':
                    e['ri'] = self.vid(h[K(e['k'])], e['k'])
                elif op == 'getd':
                    e['ri'] = self.vid(h.get(K(e['k']), V(e['d'])), e['k'])
                elif op == 'del':
                    del h[K(e['k'])]
                elif op == 'contains':
                    e['ri'] = 1 if K(e['k']) in h else 0
                elif op == 'len':
                    e['ri'] = len(h)
                elif op == 'iter':
                    e['rs'] = sorted(self.kid(k) for k in iter(h))
                elif op == 'keys':
                    e['rs'] = sorted(self.kid(k) for k in h.keys())
                elif op == 'values':
                    e['rs'] = sorted(self.vid(v) for v in h.values())
                elif op == 'items':
                    its = sorted((self.kid(k), self.vid(v, self.kid(k))) for k, v in h.items())
                    e['rs'] = [x for it in its for x in it]
                elif op == 'pop':
                    e['ri'] = self.vid(h.pop(K(e['k'])), e['k'])
                elif op == 'popd':
                    e['ri'] = self.vid(h.pop(K(e['k']), V(e['d'])), e['k'])
                elif op == 'popitem':
                    k, v = h.popitem()
                    e['rs'] = [self.kid(k), self.vid(v, self.kid(k))]
                elif op == 'popkeys':
                    e['rs'] = [self.vid(v, k) for v, k in zip(h.popkeys(self.keyarg(o, e['ks'])), e['ks'])]
                elif op == 'popkeysd':
                    e['rs'] = [self.vid(v, k) for v, k in zip(h.popkeys(self.keyarg(o, e['ks']), V(e['d'])), e['ks'])]
                elif op == 'setdefault':
                    e['ri'] = self.vid(h.setdefault(K(e['k']), V(e['v'])), e['k'])
                elif op == 'update':
                    h.update({K(e['k']): V(e['v']), K(e['k2']): V(e['v2'])})
                elif op == 'updatekw':
                    h.update({}, **{K(e['k']): V(e['v']), K(e['k2']): V(e['v2'])})
                elif op == 'update0':          # the three other ways a dict can be updated
                    h.update()
                elif op == 'updatekwonly':
                    h.update(**{K(e['k']): V(e['v']), K(e['k2']): V(e['v2'])})
                elif op == 'updateitems':
                    h.update([(K(e['k']), V(e['v'])), (K(e['k2']), V(e['v2']))])
                elif op == 'updatebad':
                    h.update({K(e['k']): V(e['v']), K(e['k2']): V(BAD)})
                elif op == 'clear':
                    h.clear()
                elif op == 'copy':
                    self.h[e['o'] - 1] = h.copy(self.locname(e['o']))
                elif op in ('eq', 'ne'):
                    r = (h == self.h[e['o'] - 1]) if op == 'eq' else (h != self.h[e['o'] - 1])
                    e['ri'] = 1 if r is True else 0 if r is False else -3
                elif op in ('eqx', 'xeq'):
                    other = self.A.dict_archive()
                    other.update(self.read(self.h[e['o'] - 1]))
                    r = (h == other) if op == 'eqx' else (other == h)
                    e['ri'] = 1 if r is True else 0 if r is False else -3
                else:
                    raise RuntimeError('unknown op %s' % op)
            except RuntimeError:
                raise
            except BaseException as ex:
                if isinstance(ex, (KeyboardInterrupt, SystemExit)):
                    raise
                e['exc'] = type(ex).__name__
                e['msg'] = str(ex)[:160]
                e['ri'] = 0
                e['rs'] = []
            e.update(self.snapshot())
            events.append(e)
        return {'cfg': {'null': self.base == 'null'}, 'init': init, 'events': events}

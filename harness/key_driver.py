"""Real side of the key engine: materialise a catalogue group (signature, ignore spec, calls) as a real
Python function, decorate it with real klepto caches / klepto.keygen, make every call and record what
happened.  Also runs as a worker (python -m harness.key_driver JOB.json OUT.json) in interpreter
sessions with different PYTHONHASHSEED values for C17.
"""
import hashlib
import json
import os
import sys

EVALS = []
LONG = 'L' * 205          # a string argument that makes string / raw keys longer than 200 characters (still a legal file name)


class Tagged(object):
    """an argument that is an instance of a user class (in a worker session this class lives in __main__, so dill may
    pickle it by value: its method holds a set literal, i.e. a frozenset constant laid out by the hash seed)"""
    def __init__(self, tag):
        self.tag = tag

    def known(self):
        return self.tag in {'alpha', 'beta', 'gamma', 'delta', 'epsilon'}

    def __eq__(self, other):
        return type(other).__name__ == 'Tagged' and other.tag == self.tag

    def __hash__(self):
        return 7

    def __repr__(self):
        return 'Tagged(%r)' % (self.tag,)


def val(v):
    t, c = v['t'], v['v']
    if t == 'obj':
        return Tagged('alpha')
    if t == 'int':
        return int(c)
    if t == 'float':
        return float(c) + 0.0        # (a new float object every time)
    if t == 'bool':
        return bool(c)
    if t == 'str':
        if c == 111:
            return ''.join(['L'] * 205)      # equal to LONG, a new string object every time
        return {100: 'a', 101: 'x', 102: 'y', 103: 'k', 104: 'z', 110: '1'}.get(c, 's%d' % c)
    if t == 'none':
        return None
    if t == 'tup':
        return (1, 2)
    raise ValueError(v)


def unval(x):
    if isinstance(x, bool):
        return {'t': 'bool', 'v': int(x)}
    if isinstance(x, int):
        return {'t': 'int', 'v': x}
    if isinstance(x, float):
        return {'t': 'float', 'v': int(x)} if x == int(x) else {'t': 'float', 'v': -999}
    if isinstance(x, str):
        return {'t': 'str', 'v': {'a': 100, 'x': 101, 'y': 102, 'k': 103, 'z': 104, '1': 110, LONG: 111}.get(x, 199)}
    if x is None:
        return {'t': 'none', 'v': 0}
    if type(x) is tuple and x == (1, 2) and all(type(i) is int for i in x):
        return {'t': 'tup', 'v': 130}
    if type(x).__name__ == 'Tagged':
        return {'t': 'obj', 'v': 120}
    return {'t': 'other', 'v': 0}


def make_func(sig, name='kf', strret=False, method=False):
    """def kf(<sig>): record an evaluation and return a token describing the binding received
    (method=True: def kf(self, <sig>), to be placed in a class body; method='this': the instance parameter is called this)"""
    params = [method if isinstance(method, str) else 'self'] if method else []
    for n, p in enumerate(sig['pos']):
        params.append(p['n'] + ('=%r' % val(p['d']) if p['hd'] else ''))
        if p.get('po') and not (n + 1 < len(sig['pos']) and sig['pos'][n + 1].get('po')):
            params.append('/')           # the parameters so far are positional-only
    if sig['va']:
        params.append('*a')
    elif sig['ko']:
        params.append('*')
    for p in sig['ko']:
        params.append(p['n'] + ('=%r' % val(p['d']) if p['hd'] else ''))
    if sig['vk']:
        params.append('**kw')
    named = [p['n'] for p in sig['pos']] + [p['n'] for p in sig['ko']]
    tok = '(%s, %s, %s)' % ('(' + ''.join('(%r, %s), ' % (n, n) for n in named) + ')',
                             'tuple(a)' if sig['va'] else '()',
                             'tuple(kw.items())' if sig['vk'] else '()')
    body = ['    EVALS.append(1)', '    return ' + ('repr(%s)' % tok if strret else tok)]
    src = 'def %s(%s):\n%s\n' % (name, ', '.join(params), '\n'.join(body))
    ns = {'EVALS': EVALS}
    exec(src, ns)
    f = ns[name]
    f.__module__ = 'harness.key_driver'
    return f, src


def make_siblings(sig, defaults):
    """functions made by one factory (one code object) that differ in the value of their defaults:
    def factory(D): def kf(x, y=D, ...): ...  -> [factory(d) for d in defaults]"""
    params = []
    for n, p in enumerate(sig['pos']):
        params.append(p['n'] + ('=D' if p['hd'] else ''))
        if p.get('po') and not (n + 1 < len(sig['pos']) and sig['pos'][n + 1].get('po')):
            params.append('/')
    if sig['va']:
        params.append('*a')
    elif sig['ko']:
        params.append('*')
    for p in sig['ko']:
        params.append(p['n'] + ('=D' if p['hd'] else ''))
    if sig['vk']:
        params.append('**kw')
    named = [p['n'] for p in sig['pos']] + [p['n'] for p in sig['ko']]
    tok = '(%s, %s, %s)' % ('(' + ''.join('(%r, %s), ' % (n, n) for n in named) + ')',
                             'tuple(a)' if sig['va'] else '()',
                             'tuple(kw.items())' if sig['vk'] else '()')
    src = 'def factory(D):\n    def kf(%s):\n        EVALS.append(1)\n        return %s\n    return kf\n' % (', '.join(params), tok)
    ns = {'EVALS': EVALS}
    exec(src, ns)
    out = []
    for d in defaults:
        f = ns['factory'](d)
        f.__module__ = 'harness.key_driver'
        out.append(f)
    return out, src


def token_log(tok):
    if tok is None:
        return {'ok': False, 'b': [], 'extra': [], 'xkw': []}
    b, extra, xkw = tok
    return {'ok': True, 'b': [{'n': n, 'v': unval(v)} for n, v in b],
            'extra': [unval(v) for v in extra], 'xkw': [{'n': n, 'v': unval(v)} for n, v in xkw]}


def ignore_tuple(ign):
    out = list(ign['names']) + list(ign['idx'])
    if ign['star']:
        out.append('*')
    if ign['dstar']:
        out.append('**')
    return tuple(out)


SENTVALS = {'empty': '', 'zero': 0, 'unit': (), 'bytes': b''}     # user-chosen sentinels that are falsy (none is an argument value)


def make_keymap(klepto, km, serializer='pickle', algorithm='md5', sentval=None):
    K = klepto.keymaps
    kw = dict(flat=km['flat'], typed=km['typed'])
    if km['sentinel']:
        kw['sentinel'] = K.SENTINEL if sentval is None else SENTVALS[sentval]
    if km['enc'] == 'raw':
        return K.keymap(**kw)
    if km['enc'] == 'str':
        return K.stringmap(**kw)
    if km['enc'] == 'pickle':
        if serializer == 'dill-module':      # the module itself, as the class docstring suggests
            import dill
            return K.picklemap(serializer=dill, **kw)
        return K.picklemap(serializer=serializer, **kw) if serializer else K.picklemap(**kw)
    if km['enc'] == 'hash':
        return K.hashmap(algorithm=algorithm, **kw)
    raise ValueError(km)


class BadText(object):
    """neither printable nor picklable"""
    def __repr__(self):
        raise TypeError('no text form')
    __str__ = __repr__

    def __reduce_ex__(self, protocol):
        raise TypeError('no pickled form')


class Classes(object):
    """key classes as a dict would see them (hash + ==); unhashable keys compare with == only"""
    def __init__(self):
        self.reps = []

    def cls(self, key):
        try:
            h = hash(key)
        except TypeError:
            h = None
        for n, (rh, rk) in enumerate(self.reps):
            if rh == h:
                try:
                    if rk == key and type(rk) is type(key):
                        return n
                except Exception:
                    pass
        self.reps.append((h, key))
        return len(self.reps) - 1


def key_hex(key):
    if isinstance(key, bytes):
        raw = b'b' + key
    elif isinstance(key, str):
        raw = b's' + key.encode('utf8', 'backslashreplace')
    else:
        raw = b'r' + repr(key).encode('utf8', 'backslashreplace')
    return hashlib.md5(raw).hexdigest()[:16]


def run_group(klepto, group, km, mode, variant=None, cache=None):
    """mode: 'std' / 'safe' (cached with inf_cache) or 'keygen' (klepto.keygen decorator, keys only)
    returns a trace dict for KeyTrace"""
    kind = (variant or {}).get('kind', 'plain')      # plain function / functools.partial fixing k / method
    shared = bool((variant or {}).get('shared'))     # every call twice: equal argument values being ONE object, then separate objects
    variant = {k: v for k, v in (variant or {}).items() if k not in ('kind', 'bare', 'replay', 'shared')} or None
    func, src = make_func(group['sig'])
    raw, _ = make_func(group['sig'], 'raw')
    ignore = ignore_tuple(group['ign'])
    if group.get('bare') and len(ignore) == 1:
        ignore = ignore[0]                 # klepto accepts a single bare name or index
    keymap = make_keymap(klepto, km, **(variant or {}))
    cached = mode in ('std', 'safe')
    pkw = {}
    sig_used = group['sig']
    if kind == 'sibling':
        # two functions from one factory (one code object): the first (defaults 2, as in the catalogue) is decorated and
        # called once, the one under test has the default 1 - its keys must be built from ITS defaults
        d1 = {'t': 'int', 'v': 1}
        (first, func), src = make_siblings(group['sig'], [2, 1])
        (_, raw), _ = make_siblings(group['sig'], [2, 1])
        sig_used = {'pos': [dict(p, d=d1) if p['hd'] else p for p in group['sig']['pos']], 'va': group['sig']['va'],
                    'ko': [dict(p, d=d1) if p['hd'] else p for p in group['sig']['ko']], 'vk': group['sig']['vk']}
        try:
            warm = (klepto.safe if mode == 'safe' else klepto).inf_cache(keymap=make_keymap(klepto, km, **(variant or {})))(first)
            c0 = group['calls'][0]
            warm(*[val(v) for v in c0['p']], **{it['n']: val(it['v']) for it in c0['k']})
        except Exception:
            pass
        src += 'kf = factory(1)   # after factory(2) was decorated and called'
    if kind == 'partialz':
        import functools
        pkw = {'z': val({'t': 'int', 'v': 1})}       # a keyword the function only collects in **kw
        func = functools.partial(func, **pkw)
        raw = functools.partial(raw, **pkw)
        src += 'functools.partial(kf, z=1)'
    if kind == 'partial':
        import functools
        pkw = {'k': val({'t': 'int', 'v': 1})}       # the keyword-only default is 2: the partial binds another value
        func = functools.partial(func, **pkw)
        raw = functools.partial(raw, **pkw)
        src += 'functools.partial(kf, k=1)'
    if kind == 'callable':
        # an instance whose class defines __call__(self, <sig>), decorated as it is (signature() inspects its __call__)
        cfunc, csrc = make_func(group['sig'], name='__call__', method=True)
        Obj = type('Obj', (object,), {'__call__': cfunc})
        func = Obj()
        rfunc, _ = make_func(group['sig'], name='__call__', method=True)
        raw = type('Obj', (object,), {'__call__': rfunc})()
        src = 'class Obj: ' + csrc + 'kf = Obj()'
    if kind in ('method', 'method0'):
        # method0: the instance parameter is called `this` and is ignored by its INDEX 0
        mfunc, msrc = make_func(group['sig'], method='this' if kind == 'method0' else True)
        # (an index of the catalogue counts the function's own parameters: on the method the instance is index 0)
        own = tuple((x + 1) if isinstance(x, int) else x for x in (ignore if isinstance(ignore, tuple) else (ignore,)))
        ign_m = ((0,) if kind == 'method0' else ('self',)) + own
        ns = {}
        mod = klepto.safe if mode == 'safe' else klepto
        deco = mod.inf_cache(keymap=keymap, ignore=ign_m) if cached else klepto.keygen(*ign_m, keymap=keymap)

        class Holder(object):
            kf = deco(mfunc)
        inst = Holder()
        f = Holder.__dict__['kf']
        src = 'class Holder: @cache(ignore=%r) %s' % (ign_m, msrc)
        call_f = lambda *a, **k: inst.kf(*a, **k)
        keyfn = (lambda *a, **k: f.key(inst, *a, **k)) if cached else (lambda *a, **k: f(inst, *a, **k))
    elif cached:
        mod = klepto.safe if mode == 'safe' else klepto
        kw = dict(keymap=keymap, ignore=ignore)
        if cache is not None:
            kw['cache'] = cache
        f = mod.inf_cache(**kw)(func)
        keyfn = f.key
        call_f = f
    else:
        f = klepto.keygen(*(ignore if isinstance(ignore, tuple) else (ignore,)), keymap=keymap)(func)
        keyfn = f
        call_f = f
    classes = Classes()
    events = []
    for c, share in [(c, sh) for c in group['calls'] for sh in ((True, False) if shared else (False,))]:
        memo = {}

        def mk(v):
            if not share:
                return val(v)
            k = json.dumps(v, sort_keys=True)
            if k not in memo:
                memo[k] = val(v)
            return memo[k]
        args = [mk(v) for v in c['p']]
        kwargs = {}
        for it in c['k']:
            kwargs[it['n']] = mk(it['v'])
        # the call that reaches the function: a partial's keywords unless the call overrides them
        eff = c
        if pkw:
            eff = {'p': c['p'], 'k': list(c['k']) + [{'n': n, 'v': unval(v)} for n, v in pkw.items() if n not in kwargs]}
        e = {'call': eff, 'exc': 'none', 'kind': 'none', 'evals': 0, 'kc': -1, 'khex': [], 'later': []}
        try:
            e['bind'] = token_log(raw(*args, **kwargs))
        except TypeError:
            e['bind'] = token_log(None)
        e['ret'] = e['bind']
        try:
            key = keyfn(*args, **kwargs)
            e['kc'] = classes.cls(key)
            e['khex'] = [key_hex(key)]
        except Exception as ex:
            e['exc'] = 'key:' + type(ex).__name__
        if cached and e['exc'] == 'none':
            i0 = f.info()
            n0 = len(EVALS)
            try:
                r = call_f(*args, **kwargs)
                e['ret'] = token_log(r) if isinstance(r, tuple) and len(r) == 3 else token_log(None)
            except Exception as ex:
                e['exc'] = 'call:' + type(ex).__name__
            i1 = f.info()
            e['evals'] = len(EVALS) - n0
            e['kind'] = 'hit' if i1.hit > i0.hit else 'load' if i1.load > i0.load else 'miss' if i1.miss > i0.miss else 'none'
        events.append(e)
    return {'sig': sig_used, 'ign': group['ign'], 'km': km, 'cached': cached, 'events': events,
            'meta': {'sid': group['sid'], 'iid': group['iid'], 'mode': mode, 'variant': dict(variant or {}, kind=kind, shared=shared), 'src': src,
                     'ignore': [str(x) for x in (ignore if isinstance(ignore, tuple) else (ignore,))], 'kind': kind,
                     'bare': bool(group.get('bare'))}}


# ---------------------------------------------------------------------------------------------
# worker sessions for C17
# ---------------------------------------------------------------------------------------------

def worker(jobfile, outfile):
    job = json.load(open(jobfile))
    sys.path.insert(0, job['repo'])
    import klepto
    assert os.path.realpath(klepto.__file__).startswith(os.path.realpath(job['repo']))
    out = []
    if job.get('preamble'):
        # this session has a past: before the calls that are compared it keyed (or tried to key) arguments that the encoders
        # refuse - a generator, an object without a printable form - through the 'safe' decorators, which swallow the failure
        import dill
        for km in (klepto.keymaps.picklemap(serializer='pickle'), klepto.keymaps.picklemap(serializer='dill'), klepto.keymaps.picklemap(serializer=dill),
                   klepto.keymaps.picklemap(), klepto.keymaps.stringmap(), klepto.keymaps.hashmap(algorithm='md5'),
                   klepto.keymaps.picklemap(serializer='json')):
            fz = klepto.safe.inf_cache(keymap=km)(lambda *a, **k: None)
            for bad in ((n for n in (1, 2)), BadText(), {1: (n for n in (1,))}):
                try:
                    fz(bad)
                    fz(1, opt=bad)
                except Exception:
                    pass
    for item in job['items']:
        group, km, variant = item['group'], item['km'], item.get('variant')
        res = {'khex': [], 'kinds': [], 'evals': []}
        if job['mode'] == 'keys':
            func, _ = make_func(group['sig'])
            f = klepto.keygen(*ignore_tuple(group['ign']), keymap=make_keymap(klepto, km, **(variant or {})))(func)
            order = list(range(len(group['calls'])))
            if job.get('reverse'):
                order.reverse()          # this session makes the same calls in the opposite order
            res['khex'] = [None] * len(order)
            for ci in order:
                c = group['calls'][ci]
                args = [val(v) for v in c['p']]
                kwargs = {it['n']: val(it['v']) for it in c['k']}
                try:
                    res['khex'][ci] = key_hex(f(*args, **kwargs))
                except Exception as ex:
                    res['khex'][ci] = 'exc:' + type(ex).__name__
        else:   # 'write' / 'read': a decorated function on a persistent archive
            func, _ = make_func(group['sig'], strret=True)   # (the sqlite fallback stores scalars only)
            A = klepto.archives
            kind, loc = item['archive']
            if kind == 'file':
                cache = A.file_archive(loc, cached=True)
            elif kind == 'dir':
                cache = A.dir_archive(loc, cached=True)
            else:
                cache = A.sqltable_archive('sqlite:///%s?table=memo' % loc, cached=True)
            f = klepto.inf_cache(cache=cache, keymap=make_keymap(klepto, km, **(variant or {})),
                                 ignore=ignore_tuple(group['ign']))(func)
            rawf, _ = make_func(group['sig'], 'raw')
            written = set()
            for c in group['calls']:
                args = [val(v) for v in c['p']]
                kwargs = {it['n']: val(it['v']) for it in c['k']}
                if job['mode'] == 'write':
                    # the writer makes each distinct call once, in the first spelling the catalogue has for it; the
                    # readers then make every spelling: all of them must be answered from the archive
                    tok = repr(rawf(*args, **kwargs))
                    if tok in written:
                        res['kinds'].append('skipped')
                        res['evals'].append(0)
                        continue
                    written.add(tok)
                i0 = f.info()
                n0 = len(EVALS)
                try:
                    f(*args, **kwargs)
                    i1 = f.info()
                    res['kinds'].append('hit' if i1.hit > i0.hit else 'load' if i1.load > i0.load else 'miss')
                except Exception as ex:
                    res['kinds'].append('exc:' + type(ex).__name__)
                res['evals'].append(len(EVALS) - n0)
            if job['mode'] == 'write':
                f.dump()
        out.append(res)
    json.dump(out, open(outfile, 'w'))


if __name__ == '__main__':
    worker(sys.argv[1], sys.argv[2])

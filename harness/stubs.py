"""Deterministic stub functions wrapped by the cache decorators under test.

They live in an importable module so that dill pickles them by reference (C20) and all share one
evaluation log.  F(x, y) = 1000 + 10*x + y; x in RAISES raises; list/odd arguments are supported
for the 'safe' fallback path.
"""
LOG = []          # (function name, x, y) per evaluation
LAST_EXC = [None]
DURING = [None]   # one-shot callback run INSIDE the next evaluation (used to snapshot a function while a call is in flight)


class StubError(Exception):
    pass


RAISE7 = [StubError]
RAISE_KINDS = {'StubError': StubError, 'TypeError': TypeError, 'ValueError': ValueError, 'AttributeError': AttributeError,
               'OSError': OSError, 'RuntimeError': RuntimeError, 'IndexError': IndexError}


XS = [1, 2, -3, 4, 5, 6]                 # the x values of the normal bindings, in key-class order
REAL = {1: 1010, 2: 0, -3: 'neg three', 4: None, 5: 2.5, 6: ''}       # (falsy results on purpose: None, 0, '')   # scalars: the sqlite fallback stores nothing else


def _value(x, y):
    """the deterministic result of the stubs: rich values (int, float, str, None, tuple) on purpose"""
    if not isinstance(x, (int, float)):
        return 1410          # any "unkeyable" argument (list, BadRepr instance)
    base = REAL.get(x, ('other', x))
    if y == 0:
        return base
    return ('y', x, y)


def _body(name, x, y):
    LOG.append((name, x, y))
    if DURING[0] is not None:
        cb, DURING[0] = DURING[0], None
        cb()
    if getattr(type(x), 'klepto_verif_raises', False):      # an unkeyable argument for which the function raises
        e = StubError('stub failure for an unkeyable argument')
        LAST_EXC[0] = e
        raise e
    if x == 7:
        # (the class of this exception is configurable: a decorator must pass on whatever the function raises,
        # also the exception types it catches itself for its own purposes - TypeError, ValueError, ...)
        e = RAISE7[0]('stub failure for x=7')
        LAST_EXC[0] = e
        raise e
    if x == 8:
        e = KeyError('stub KeyError for x=8')
        LAST_EXC[0] = e
        raise e
    return _value(x, y)


def f1(x, y=0):
    return _body('f1', x, y)


def f2(x, y=0):
    return _body('f2', x, y)


def f3(x, y=0):
    return _body('f3', x, y)


FUNCS = [f1, f2, f3]


# value independent of y (used with ignore='y' / ignore=1)
def g1(x, y=0):
    _body('g1', x, y)
    return _value(x, 0)


def g2(x, y=0):
    _body('g2', x, y)
    return _value(x, 0)


def g3(x, y=0):
    _body('g3', x, y)
    return _value(x, 0)


GFUNCS = [g1, g2, g3]


# value depends on round(x) only (used with tol=0)
def h1(x, y=0):
    _body('h1', x, y)
    return _value(int(round(x)), 0)


def h2(x, y=0):
    _body('h2', x, y)
    return _value(int(round(x)), 0)


def h3(x, y=0):
    _body('h3', x, y)
    return _value(int(round(x)), 0)


HFUNCS = [h1, h2, h3]


# tol=1 with a float default that callers never pass (the default must not be rounded differently by key())
def t1(x, y=0.125):
    _body('t1', x, y)
    return _value(int(round(x)), 0)


def t2(x, y=0.125):
    _body('t2', x, y)
    return _value(int(round(x)), 0)


def t3(x, y=0.125):
    _body('t3', x, y)
    return _value(int(round(x)), 0)


TFUNCS = [t1, t2, t3]


# no rounding: the value identifies the exact float received
def q1(x, y=0):
    _body('q1', x, y)
    return ('frac', x)


def q2(x, y=0):
    _body('q2', x, y)
    return ('frac', x)


def q3(x, y=0):
    _body('q3', x, y)
    return ('frac', x)


QFUNCS = [q1, q2, q3]


class BadValue(object):
    """an argument whose encoding fails with ValueError (not TypeError) under every keymap"""
    def __repr__(self):
        raise ValueError('BadValue cannot be represented')
    __str__ = __repr__

    def __hash__(self):
        raise ValueError('BadValue is unhashable')

    def __reduce_ex__(self, protocol):
        raise ValueError('BadValue cannot be pickled')


class BadRepr(object):
    """an argument that no keymap can encode: repr/str/pickle/hash all fail"""
    def __repr__(self):
        raise TypeError('BadRepr cannot be represented')
    __str__ = __repr__

    def __hash__(self):
        raise TypeError('BadRepr is unhashable')

    def __reduce__(self):
        raise TypeError('BadRepr cannot be pickled')


# arguments that are long strings with a long common prefix (keys longer than a file name may be); the value names the argument
LONGP = 'v' * 270


def _lvalue(x):
    return ('long', x[len(LONGP):]) if isinstance(x, str) else _value(x, 0)


def l1(x, y=0):
    _body('l1', x, y)
    return _lvalue(x)


def l2(x, y=0):
    _body('l2', x, y)
    return _lvalue(x)


def l3(x, y=0):
    _body('l3', x, y)
    return _lvalue(x)


LFUNCS = [l1, l2, l3]


def _bad_class(name, exc):
    """an argument that no keymap can encode, failing with the given exception class everywhere"""
    def boom(self, *a):
        raise exc('%s cannot be keyed' % name)
    return type(name, (object,), {'__repr__': boom, '__str__': boom, '__hash__': boom, '__reduce_ex__': boom,
                                  '__module__': __name__})


BadAttr = _bad_class('BadAttr', AttributeError)
BadRuntime = _bad_class('BadRuntime', RuntimeError)
BadLookup = _bad_class('BadLookup', LookupError)
BadRecursion = _bad_class('BadRecursion', RecursionError)
class NoPickle(object):
    """an argument that prints, compares and hashes like any object but cannot be pickled (it 'holds a lock'): unkeyable for
    the keymaps that serialize (picklemap with a serializer), keyable for the others"""
    def __reduce_ex__(self, protocol):
        raise TypeError('cannot pickle NoPickle object')

    def __repr__(self):
        return 'NoPickle()'


BAD_BY_KIND = {'nopickle': NoPickle, 'value': BadValue, 'type': BadRepr, 'attr': BadAttr, 'runtime': BadRuntime, 'lookuperr': BadLookup,
               'recursion': BadRecursion}


def other_function(p, q=5, *r, **s):
    """a second function with another signature, decorated with the SAME decorator object as the stub (never called)"""
    LOG.append(('other', p, q))
    return ('other', p, q)


# value independent of the second parameter, whose name has more than one character (ignore='why' passed as a bare string)
def w1(x, why=0):
    _body('w1', x, why)
    return _value(x, 0)


def w2(x, why=0):
    _body('w2', x, why)
    return _value(x, 0)


def w3(x, why=0):
    _body('w3', x, why)
    return _value(x, 0)


WFUNCS = [w1, w2, w3]


# arguments of mutually unorderable types at one position (int, str, None, float, tuple, bytes)
MIXED = [1, 'b', None, 2.5, (3,), b'x']


def _mvalue(x):
    return ('mixed', repr(x))


def m1(x, y=0):
    _body('m1', x, y)
    return _mvalue(x)


def m2(x, y=0):
    _body('m2', x, y)
    return _mvalue(x)


def m3(x, y=0):
    _body('m3', x, y)
    return _mvalue(x)


MFUNCS = [m1, m2, m3]


# equal-but-differently-typed arguments (1 == 1.0 == True): the value names the type received
EQTYPES = [1, 1.0, True, 2, 2.0, 0]


def _evalue(x):
    return ('eq', type(x).__name__, repr(x))


def e1(x, y=0):
    _body('e1', x, y)
    return _evalue(x)


def e2(x, y=0):
    _body('e2', x, y)
    return _evalue(x)


def e3(x, y=0):
    _body('e3', x, y)
    return _evalue(x)


EFUNCS = [e1, e2, e3]


# results of a few hundred KB (a compressed directory archive reads and writes them in several pieces; a file archive rewrites
# megabytes): base64 text of random bytes - every part of it compresses "somewhat" (by a quarter) - and a repetitive tail
_BLOBS = {}


def _blob(x):
    k = int(x) if isinstance(x, (int, float)) else -99
    if k not in _BLOBS:
        import base64
        import random
        _BLOBS[k] = base64.b64encode(random.Random(4000 + k).randbytes(120000)) + (b'klepto-verif %d ' % k) * 3000
    return _BLOBS[k]


def _bvalue(x, y):
    return ('big', _value(x, y), _blob(x))


def b1(x, y=0):
    _body('b1', x, y)
    return _bvalue(x, y)


def b2(x, y=0):
    _body('b2', x, y)
    return _bvalue(x, y)


def b3(x, y=0):
    _body('b3', x, y)
    return _bvalue(x, y)


BFUNCS = [b1, b2, b3]


# a purely variadic function called with one argument (or none): under a flat keymap without hashing the cache key IS that
# argument - 0, '', b'' and () are keys that are false in a boolean test
FALSY = [0, '', 1, 2]


def _zvalue(args):
    return ('z',) + tuple(args)


def z1(*args):
    _body('z1', args[0] if args else 'none', 0)
    return _zvalue(args)


def z2(*args):
    _body('z2', args[0] if args else 'none', 0)
    return _zvalue(args)


def z3(*args):
    _body('z3', args[0] if args else 'none', 0)
    return _zvalue(args)


ZFUNCS = [z1, z2, z3]


# the decorated callable is a BUILTIN that publishes no signature (getattr): klepto cannot inspect it and keys the call by its
# positional arguments.  getattr(Probe(x), 'val') is evaluated in Probe.__getattr__, which is the stub's body
class Probe(object):
    def __init__(self, x):
        self.x = x

    def __getattr__(self, name):          # (only reached for attributes that do not exist)
        if name != 'val':
            raise AttributeError(name)
        return _body('getattr', self.__dict__['x'], 0)

    def __eq__(self, other):
        return type(other) is Probe and other.__dict__['x'] == self.__dict__['x']

    def __ne__(self, other):
        return not self.__eq__(other)

    def __hash__(self):
        return hash(('Probe', self.__dict__['x']))

    def __repr__(self):
        return 'Probe(%r)' % (self.__dict__['x'],)


UFUNCS = [getattr, getattr, getattr]

"""Engine `store`: property C08 (cache/archive synchronisation algebra).

TLC checks that StoreImpl (the __archive__/__swap__ mechanism) refines StoreP exhaustively (bounded),
generates behaviours (all short sequences + simulation walks); every behaviour is replayed on real
klepto.archives.cache objects over every constructible archive backend; every recorded step is judged
by TLC against StoreP (StoreTrace).
"""
import json
import multiprocessing
import os
import random
import re
import shutil
import time

from . import common

ALL_OPS = ['mset', 'mdel', 'mpop', 'mget', 'mupdate', 'mclear', 'aset', 'adel', 'load', 'loadk', 'dump', 'dumpk',
           'sync', 'arch_on', 'arch_off', 'open', 'assign', 'drop', 'archived',
           'mlen', 'mkeys', 'mcontains', 'msetdefault', 'mpopitem', 'mpopkeys', 'mpopkeysd', 'aclear', 'aupdate']


def enc_seq(vals):
    r = 0
    for v in vals:
        r = r * 100 + v
    return r
BACKENDS = ['dict', 'file', 'file-json', 'file-py', 'dir', 'dir-fast', 'dir-compressed', 'dir-json', 'dir-py',
            'sql-mem', 'sql-file']
NK, NA = 3, 2


def cfg_text(consts, spec, invariants=(), properties=(), view=None):
    lines = ['SPECIFICATION %s' % spec, 'CONSTANTS']
    for k, v in consts.items():
        lines.append('  %s = %s' % (k, common.tla_value(v) if not (isinstance(v, (set, frozenset)) and not v) else '{}'))
    lines += ['INVARIANT %s' % i for i in invariants]
    lines += ['PROPERTY %s' % p for p in properties]
    if view:
        lines.append('VIEW %s' % view)
    lines.append('CHECK_DEADLOCK FALSE')
    return '\n'.join(lines) + '\n'


class StoreRecorder(object):
    def __init__(self, backend, workdir, nonev=False):
        self.nonev = nonev          # value ids 10k+2 stand for the value None (a stored None is a value like any other)
        self.klepto = common.import_klepto()
        A = self.klepto._archives
        self.backend = backend
        self.workdir = workdir if backend.startswith(('file', 'dir')) and not backend.endswith('-py') else None
        self.handles = []     # per archive id: (primary handle bound to the cache, second handle for direct writes)
        for x in range(1, NA + 1):
            self.handles.append(self._make(A, backend, workdir, x))
        self.cache = self.klepto.archives.cache(archive=self.handles[0][0])
        self.nullobjs = []

    def _make(self, A, b, w, x):
        def two(f):
            return (f(), f())
        if b == 'dict':
            a = A.dict_archive()
            return (a, a)
        if b == 'file':
            return two(lambda: A.file_archive(os.path.join(w, 'f%d.pkl' % x)))
        if b == 'file-json':
            return two(lambda: A.file_archive(os.path.join(w, 'f%d.json' % x), protocol='json'))
        if b == 'file-py':
            return two(lambda: A.file_archive(os.path.join(w, 'fsrc%d.py' % x), serialized=False))
        if b == 'dir':
            return two(lambda: A.dir_archive(os.path.join(w, 'd%d' % x)))
        if b == 'dir-fast':
            return two(lambda: A.dir_archive(os.path.join(w, 'df%d' % x), fast=True))
        if b == 'dir-compressed':
            return two(lambda: A.dir_archive(os.path.join(w, 'dc%d' % x), compression=3))
        if b == 'dir-json':
            return two(lambda: A.dir_archive(os.path.join(w, 'dj%d' % x), protocol='json'))
        if b == 'dir-py':
            return two(lambda: A.dir_archive(os.path.join(w, 'dsrc%d' % x), serialized=False))
        if b == 'sql-mem':
            a = A.sqltable_archive(None, 'memo%d' % x)
            return (a, a)
        if b == 'sql-file':
            return two(lambda: A.sqltable_archive('sqlite:///' + os.path.join(w, 's.db'), 'memo%d' % x))
        raise ValueError(b)

    @staticmethod
    def key(k):
        return 'k%d' % k

    def keyarg(self, c, o):
        """the keys handed to popkeys: a list, a one-shot iterator, or - when every resident key is named - the cache's own keys()"""
        keys = [self.key(k) for k in o['keys']]
        how = o.get('how', 'list')
        if how == 'iter':
            return iter(keys)
        if how == 'own' and keys == list(dict.keys(c)):       # (same keys in the same order: the results are compared position by position)
            return c.keys()
        return keys

    def V(self, v):
        return None if (self.nonev and isinstance(v, int) and v % 10 == 2) else v

    def unV(self, x, k=0):
        if x is None and self.nonev:
            return 10 * k + 2
        return x

    def project(self, d):
        out = [0] * NK
        for rk, v in d.items():
            kid = int(rk[1:]) if isinstance(rk, str) and rk[:1] == 'k' and rk[1:].isdigit() else 0
            v = self.unV(v, kid)
            if 1 <= kid <= NK and isinstance(v, int) and not isinstance(v, bool) and v != 0 and not (self.nonev and v % 10 == 2 and v != 10 * kid + 2):
                out[int(rk[1:]) - 1] = v
            else:
                out[NK - 1] = -7      # a key or value that was never stored
        return out

    def snapshot(self):
        c = self.cache
        mem = self.project(dict(dict.items(c)))
        archs = []
        for (h1, h2) in self.handles:
            try:
                archs.append(self.project(dict(h2.items())))
            except Exception:
                archs.append([-9] * NK)
        bound = c.archive
        cur = 0
        for x, (h1, h2) in enumerate(self.handles, 1):
            if bound is h1:
                cur = x
        nullsize = 0
        if cur == 0:
            try:
                nullsize = len(bound) + len(bound.__asdict__())
            except Exception:
                nullsize = -1
            if not isinstance(bound, self.klepto._archives.null_archive):
                cur = 9          # bound to something that is neither null nor one of ours
        return {'mem': mem, 'archs': archs, 'cur': cur, 'nullsize': nullsize}

    def freeze_times(self):
        """every regular file of the archives gets one fixed modification time: a file system with coarse time stamps, on
        which two writes in the same tick are indistinguishable by (mtime, size) - values are small ints of equal length.
        (files only: a directory's own mtime is what the import system's finder watches, and a real write always moves it)"""
        if not self.workdir:
            return
        for root, dirs, files in os.walk(self.workdir):
            if '__pycache__' in root:
                continue
            for f in files:
                if f.endswith(('.db', '.db-journal', '.db-wal')):
                    continue
                try:
                    os.utime(os.path.join(root, f), (1700000000, 1700000000))
                except OSError:
                    pass

    def run(self, ops):
        init = self.snapshot()
        events = []
        K = self.key
        c = self.cache
        for o in ops:
            e = dict(o)
            e['ret'] = 0
            e['exc'] = 'none'
            op = o['op']
            try:
                if op == 'mset':
                    c[K(o['k'])] = self.V(o['v'])
                elif op == 'mdel':
                    del c[K(o['k'])]
                elif op == 'mpop':
                    e['ret'] = self.unV(c.pop(K(o['k'])), o['k'])
                elif op == 'mget':
                    e['ret'] = self.unV(c[K(o['k'])], o['k'])
                elif op == 'mupdate':
                    c.update({K(o['k']): self.V(o['v']), K(o['k2']): self.V(o['v2'])})
                elif op == 'mclear':
                    c.clear()
                elif op == 'mlen':
                    e['ret'] = len(c)
                elif op == 'mkeys':
                    e['ret'] = enc_seq(sorted(int(k[1:]) for k in c.keys()))
                elif op == 'mcontains':
                    e['ret'] = 1 if K(o['k']) in c else 0
                elif op == 'msetdefault':
                    e['ret'] = self.unV(c.setdefault(K(o['k']), self.V(o['v'])), o['k'])
                elif op == 'mpopitem':
                    e['rk'] = 0
                    rk, rv = c.popitem()
                    e['rk'] = int(rk[1:]) if isinstance(rk, str) and rk[1:].isdigit() else -1
                    e['ret'] = self.unV(rv, e['rk'])
                elif op == 'mpopkeys':
                    e['ret'] = enc_seq([self.unV(x, k) for x, k in zip(c.popkeys(self.keyarg(c, o)), o['keys'])])
                elif op == 'mpopkeysd':
                    e['ret'] = enc_seq([self.unV(x, k) for x, k in zip(c.popkeys(self.keyarg(c, o), 77), o['keys'])])
                elif op == 'aclear':
                    self.handles[o['x'] - 1][1].clear()
                elif op == 'aupdate':
                    self.handles[o['x'] - 1][1].update({K(o['k']): self.V(o['v']), K(o['k2']): self.V(o['v2'])})
                elif op == 'aset':
                    self.handles[o['x'] - 1][1][K(o['k'])] = self.V(o['v'])
                elif op == 'adel':
                    del self.handles[o['x'] - 1][1][K(o['k'])]
                elif op == 'load':
                    c.load()
                elif op == 'loadk':
                    c.load(*[K(k) for k in o['keys']])
                elif op == 'dump':
                    c.dump()
                elif op == 'dumpk':
                    c.dump(*[K(k) for k in o['keys']])
                elif op == 'sync':
                    c.sync(clear=o['clear'])
                elif op == 'arch_on':
                    c.archived(True)
                elif op == 'arch_off':
                    c.archived(False)
                elif op == 'open':
                    c.open(self.handles[o['x'] - 1][0])
                elif op == 'assign':         # the bare property setter (x = 0: a null archive)
                    c.archive = self.handles[o['x'] - 1][0] if o['x'] else self.klepto._archives.null_archive()
                elif op == 'drop':
                    c.drop()
                elif op == 'archived':
                    e['ret'] = 1 if c.archived() else 0
                else:
                    raise common.MachineryError('unknown op %s' % op)
            except common.MachineryError:
                raise
            except Exception as ex:
                e['exc'] = type(ex).__name__
                e['ret'] = 0
            if not isinstance(e['ret'], int) or isinstance(e['ret'], bool):
                e['ret'] = -5
            self.freeze_times()
            e.update(self.snapshot())
            events.append(e)
        return {'cfg': {'nk': NK, 'na': NA}, 'init': init, 'events': events}


def _replay_one(job):
    backend, ops, wd = job[:3]
    nonev = len(job) > 3 and job[3]
    os.makedirs(wd, exist_ok=True)
    cwd = os.getcwd()
    try:
        r = StoreRecorder(backend, wd, nonev=nonev)
        t = r.run(ops)
        t['meta'] = {'backend': backend, 'ops': ops, 'nonev': bool(nonev)}
        return t
    except common.MachineryError as e:
        return {'error': str(e)}
    finally:
        os.chdir(cwd)
        shutil.rmtree(wd, True)


def model_check(consts, work, workers=8):
    p = os.path.join(work, 'mc-%s.cfg' % common.trace_hash(sorted((k, repr(v)) for k, v in consts.items())))
    with open(p, 'w') as f:
        f.write(cfg_text(consts, 'Spec', invariants=['NeverBothBound', 'GhostMatchesSwap'], properties=['Refines'], view='View'))
    r = common.run_tlc('StoreImpl', p, workdir=work, workers=workers, timeout=1500, heap='6g')
    if not r.ok:
        raise common.MachineryError('StoreImpl does not refine StoreP or TLC failed:\n%s' % r.out[-3000:])
    return {'constants': {k: (sorted(v) if isinstance(v, (set, frozenset)) else v) for k, v in consts.items()},
            'generated': r.generated, 'distinct': r.distinct, 'depth': r.depth, 'wall': round(r.wall, 1)}


def generate(consts, work, num, depth, sd, exhaustive=False):
    c = dict(consts)
    c['DEPTH'] = depth
    p = os.path.join(work, 'gen-%s.cfg' % common.trace_hash(sorted((k, repr(v)) for k, v in c.items())))
    with open(p, 'w') as f:
        f.write(cfg_text(c, 'Spec', invariants=['Emit']))
    if exhaustive:
        r = common.run_tlc('StoreGen', p, workdir=work, workers=1, timeout=900, heap='4g')
    else:
        r = common.run_tlc('StoreGen', p, workdir=work, workers=1, timeout=900, heap='2g',
                           simulate='num=%d' % num, depth=depth + 1, extra=['-seed', str(sd)])
    if r.error and 'HIST' not in r.out:
        raise common.MachineryError('StoreGen failed:\n%s' % r.out[-2000:])
    out, seen = [], set()
    for m in re.finditer(r'<<"HIST", "(.*)">>', r.out):
        s = m.group(1)
        if s not in seen:
            seen.add(s)
            out.append(json.loads(s.replace('\\"', '"'))['ops'])
    sim = re.findall(r'The number of states generated: (\d+)', r.out)
    return out, (int(sim[-1]) if sim else r.generated)


def random_ops(rng, n):
    ops = []
    for _ in range(n):
        op = rng.choice(ALL_OPS)
        o = {'op': op}
        if op in ('mset', 'aset'):
            o['k'] = rng.randint(1, NK)
            o['v'] = 10 * o['k'] + rng.randint(1, 3)
        if op == 'msetdefault':
            o['k'] = rng.randint(1, NK)
            o['v'] = 10 * o['k'] + rng.randint(1, 3)
        if op in ('mdel', 'mpop', 'mget', 'adel', 'mcontains'):
            o['k'] = rng.randint(1, NK)
        if op in ('aset', 'adel', 'open', 'aclear', 'aupdate'):
            o['x'] = rng.randint(1, NA)
        if op == 'assign':
            o['x'] = rng.randint(0, NA)
        if op == 'aupdate':
            o.update({'k': 1, 'v': 10 + rng.randint(1, 3), 'k2': 2, 'v2': 20 + rng.randint(1, 3)})
        if op in ('mpopkeys', 'mpopkeysd'):
            o['keys'] = rng.choice([[1], [2], [1, 2], [2, 3], [2, 1], [1, 1], [3, 1, 2]])
            o['how'] = rng.choice(['list', 'iter', 'iter', 'own'])
        if op == 'mupdate':
            o.update({'k': 1, 'v': 10 + rng.randint(1, 3), 'k2': 2, 'v2': 20 + rng.randint(1, 3)})
        if op in ('loadk', 'dumpk'):
            o['keys'] = sorted(rng.sample(range(1, NK + 1), rng.randint(1, 2)))
        if op == 'sync':
            o['clear'] = rng.random() < 0.4
        ops.append(o)
    return ops


def main(pid, tier):
    assert pid == 'C08'
    rep = common.Report(pid, tier)
    thorough = tier == 'thorough'
    work = common.scratch('store')
    rng = random.Random(common.seed() * 31 + 8)
    mcs = []
    mcs.append(model_check(dict(NK=2, NA=2, VALS={1, 2}, DEPTH=8 if thorough else 6, OPS=set(ALL_OPS)), work))
    mcs.append(model_check(dict(NK=3, NA=2, VALS={1}, DEPTH=7 if thorough else 5, OPS=set(ALL_OPS)), work))
    behaviours = []
    gen_states = 0
    b, st = generate(dict(NK=3, NA=2, VALS={1, 2}, OPS=set(ALL_OPS)), work, 400 if thorough else 60,
                     40 if thorough else 25, common.seed() + 1)
    behaviours += b
    gen_states += st
    # all sequences of length 3 (4 in the thorough tier) over the synchronisation operations
    ex_ops = {'mset', 'aset', 'load', 'dump', 'sync', 'arch_on', 'arch_off', 'mdel', 'open', 'assign', 'drop'}
    b, st = generate(dict(NK=1, NA=2, VALS={1, 2}, OPS=ex_ops), work, 0, 4 if thorough else 3, 0, exhaustive=True)
    behaviours += b
    gen_states += st
    for _ in range(1500 if thorough else 150):
        behaviours.append(random_ops(rng, 40 if thorough else 25))
    # exhaustive behaviours used NK=1: still valid operation sequences for NK=3
    root = common.scratch('store-replay')
    jobs = []
    for n, ops in enumerate(behaviours):
        if thorough:      # every backend for every 7th behaviour, a rotating three for the others
            bks = BACKENDS if n % 7 == 0 else [BACKENDS[(n + j * 4) % len(BACKENDS)] for j in range(3)]
        else:
            bks = BACKENDS if n % 29 == 0 else [BACKENDS[n % len(BACKENDS)]]
        for bk in bks:
            jobs.append((bk, ops, os.path.join(root, 'j%d' % len(jobs)), n % 3 == 1))      # every third: second values are None
    # replay and validation in batches (a thorough run has several hundred thousand (backend, sequence) pairs)
    t_replay = 0.0
    st = {'states': 0, 'events': 0, 'wall': 0.0}
    hashes = set()
    nontriv = nrejected = ntraces = 0
    sample = None
    CH = int(os.environ.get('VERIF_BATCH', '40000'))
    ctx = multiprocessing.get_context('fork')
    for lo in range(0, len(jobs), CH):
      t0 = time.time()
      with ctx.Pool(common.NCPU) as pool:
          traces = pool.map(_replay_one, jobs[lo:lo + CH], chunksize=8)
      bad = [t for t in traces if 'error' in t]
      if bad:
          raise common.MachineryError('store recorder failed: %s' % bad[0])
      t_replay += time.time() - t0
      verdicts, st1 = common.validate_traces('StoreTrace', [{k: t[k] for k in ('cfg', 'init', 'events')} for t in traces], [pid])
      for k in ('states', 'events', 'wall'):
          st[k] += st1[k]
      ntraces += len(traces)
      nrejected += sum(1 for v in verdicts if v)
      if sample is None:
          sample = {'backend': traces[0]['meta']['backend'], 'ops': traces[0]['meta']['ops'][:8],
                    'events': [{k: e[k] for k in ('op', 'ret', 'exc', 'mem', 'archs', 'cur')} for e in traces[0]['events'][:4]]}
      for t, v in zip(traces, verdicts):
        h = common.trace_hash([t['meta']['backend'], t['events']])
        if h not in hashes:
            hashes.add(h)
            if any(e['op'] in ('load', 'loadk', 'dump', 'dumpk', 'sync') and
                   (e['mem'] != p['mem'] or e['archs'] != p['archs'])
                   for p, e in zip([t['init']] + t['events'], t['events'])):
                nontriv += 1
        if v is not None:
            e = t['events'][v[0] - 1]
            rep.reject({'engine': 'store', 'backend': t['meta']['backend'], 'op': e['op'], 'clauses': v[1], 'exc': e['exc']},
                       {'backend': t['meta']['backend'], 'nonev': t['meta']['nonev'], 'ops': t['meta']['ops'][:v[0]], 'event_index': v[0],
                        'clauses': v[1], 'event': e})
      del traces, verdicts
    cov = {'states': sum(m['distinct'] for m in mcs) + st['states'],
           'transitions': sum(m['generated'] for m in mcs) + gen_states + st['events'],
           'traces_validated_against_impl': ntraces, 'samples': [sample],
           'evaluations': ntraces, 'distinct_nontrivial': nontriv,
           'rule': 'one evaluation = one operation sequence replayed on one backend; distinct by hash of (backend, events); '
                   'non-trivial = some load/dump/sync step changed the cache or an archive',
           'exhaustive': False,
           'model_checking': {'layer_I_runs': mcs, 'behaviours': len(behaviours), 'generation_states': gen_states},
           'trace_validation': {'traces': ntraces, 'events': st['events'], 'rejected': nrejected,
                                'wall_s': round(st['wall'], 1), 'replay_wall_s': round(t_replay, 1)},
           'backends': BACKENDS}
    return rep.finish('model_checking', cov, [
        'keys are the strings k1..k3 and values small integers (what every backend, including JSON, source text and '
        'the sqlite fallback, can store); direct archive writes go through a second handle on the same location',
        'drop() on a cache that never had an archive raises ValueError in the code; C08 does not speak about it and it is not generated',
        'HDF5 and sqlalchemy backends cannot be constructed offline'])


def replay(pid, path):
    """re-run the recorded operation sequence on the current tree and let TLC judge it again"""
    case = json.load(open(path))['case']
    t = _replay_one((case['backend'], case['ops'], os.path.join(common.scratch('store-replay1'), 'r'), case.get('nonev', False)))
    if 'error' in t:
        raise common.MachineryError(t['error'])
    verdicts, _ = common.validate_traces('StoreTrace', [{k: t[k] for k in ('cfg', 'init', 'events')}], [pid])
    if verdicts[0] is None:
        print('replay: accepted on the current tree')
        return common.EXIT_OK
    print('VIOLATION property=%s replay=%s' % (pid, path))
    print('  clauses: %s at event %d' % (verdicts[0][1], verdicts[0][0]))
    return common.EXIT_VIOLATION

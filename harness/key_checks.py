"""Engine `key`: properties C09 (canonicalisation), C10 (discrimination), C11 (ignore), C17 (stability
across interpreter sessions).

1. TLC checks layer I (specs/KeyImpl.tla: _keygen + keymaps transcribed) against the clauses of layer P
   (specs/KeyP.tla: Python's argument binding as the oracle) for every pair of calls of every catalogue
   group and every keymap configuration (PairOK), within the stated constants; one more run per named
   deviation must produce a counterexample.
2. TLC emits the catalogue (specs/KeyGen.tla); every group is materialised as a real function, decorated
   with real klepto caches (std / safe inf_cache) and klepto.keygen under every keymap configuration, and
   every call is made (harness/key_driver.py).
3. TLC validates every recorded trace against layer P (specs/KeyTrace.tla).  The transcription of
   Python's binding rules is itself checked against the interpreter on every event (ORACLE.* clauses:
   a failure there is a machinery error, never a violation).
"""
import itertools
import json
import multiprocessing
import os
import random
import re
import subprocess
import sys
import time

from . import common
from . import key_driver as kd

ENCS = ['raw', 'str', 'pickle', 'hash']
DEVIATIONS = {
    'nonflat_kwds_order': ('C09', dict(SigIds={30}, IgnIds={0}, KwNames={'x', 'z'}, PVals={1}, MAXP=1, MAXK=2)),
    'ignored_varkw_null_marker': ('C11', dict(SigIds={25}, IgnIds={8}, KwNames={'z'}, PVals={1}, MAXP=1, MAXK=1)),
    'starstar_pops_kwonly': ('C11', dict(SigIds={34}, IgnIds={6}, KwNames={'k'}, PVals={1, 2}, MAXP=1, MAXK=1)),
    'stringmap_bare_str': ('C10', dict(SigIds={4}, IgnIds={0}, KwNames={'z'}, PVals={1, 7}, MAXP=1, MAXK=0)),
    'posonly_keyword_shadowed': ('C10', dict(SigIds={73, 77, 122}, IgnIds={0}, KwNames={'x', 'z'}, PVals={1, 2}, MAXP=2, MAXK=1)),
}
# signatures with positional-only parameters (ids 48..143, see KeyImpl.Sig) that every run includes
PO_SIGS = {49, 50, 98, 73, 77, 122}


def all_kms():
    out = []
    for enc in ENCS:
        for flat in (True, False):
            for typed in (False, True):
                for sent in (False, True):
                    out.append({'enc': enc, 'flat': flat, 'typed': typed, 'sentinel': sent})
    return out


def cfg_text(consts, spec, invariants=()):
    lines = ['SPECIFICATION %s' % spec, 'CONSTANTS']
    for k, v in consts.items():
        lines.append('  %s = %s' % (k, '{}' if isinstance(v, (set, frozenset)) and not v else common.tla_value(v)))
    lines += ['INVARIANT %s' % i for i in invariants]
    lines.append('CHECK_DEADLOCK FALSE')
    return '\n'.join(lines) + '\n'


def tlc_pairs(consts, work, workers=8, timeout=2400):
    p = os.path.join(work, 'pairs-%s.cfg' % common.trace_hash(sorted((k, repr(v)) for k, v in consts.items())))
    open(p, 'w').write(cfg_text(consts, 'Spec', ['PairOK']))
    r = common.run_tlc('KeyImpl', p, workdir=work, workers=workers, timeout=timeout, heap='8g')
    res = {'constants': {k: (sorted(v) if isinstance(v, (set, frozenset)) else v) for k, v in consts.items()},
           'generated': r.generated, 'distinct': r.distinct, 'wall': round(r.wall, 1), 'violated': r.violated}
    if r.violated:
        res['counterexample'] = r.out[r.out.find('State 3'):][:1500]
    elif not r.ok:
        raise common.MachineryError('KeyImpl run failed:\n%s' % r.out[-2500:])
    return res


def tlc_catalogue(consts, work, invalid=False):
    p = os.path.join(work, 'cat-%s%s.cfg' % (common.trace_hash(sorted((k, repr(v)) for k, v in consts.items())), '-all' if invalid else ''))
    open(p, 'w').write(cfg_text(consts, 'GSpec', ['EmitAll' if invalid else 'Emit']))
    r = common.run_tlc('KeyGen', p, workdir=work, workers=1, timeout=900, heap='4g')
    groups = []
    for m in re.finditer(r'<<"GROUP", "(.*)">>', r.out):
        groups.append(json.loads(m.group(1).replace('\\"', '"')))
    if not groups:
        raise common.MachineryError('KeyGen produced no catalogue:\n%s' % r.out[-2000:])
    for g in groups:
        g['calls'] = sorted(g['calls'], key=lambda c: json.dumps(c, sort_keys=True))
        # every call of a trace is compared with all earlier ones (quadratic): large groups are sampled (seeded)
        cap = int(os.environ.get('VERIF_KEY_CALLS', '0')) or CALL_CAP[0]
        if len(g['calls']) > cap:
            rng = random.Random(common.seed() * 1000003 + g['sid'] * 131 + g['iid'])
            g['calls_total'] = len(g['calls'])
            g['calls'] = sorted(rng.sample(g['calls'], cap), key=lambda c: json.dumps(c, sort_keys=True))
    return groups, r.distinct


CALL_CAP = [300]


def base_consts(tier, igns, sigs=None, pvals=None, po=None):
    thorough = tier == 'thorough'
    if sigs is None:
        sigs = set(range(144)) if thorough else {1, 2, 3, 4, 5, 6, 14, 18, 22, 26, 30, 34, 42, 47} | (PO_SIGS if po is None else set(po))
    if pvals is None:
        pvals = {1, 2, 3, 4, 5, 7} if thorough else {1, 2}
    return dict(SigIds=set(sigs), PVals=set(pvals), MAXP=2, MAXK=2,
                KwNames={'x', 'y', 'k', 'z'}, IgnIds=set(igns), Deviations=set())


def pair_consts(tier, consts):
    """bounds of the exhaustive layer-I pair check (quadratic in the number of calls)"""
    c = dict(consts)
    if tier == 'thorough':
        c['PVals'] = {1, 3} if len(consts['SigIds']) > 60 else {1, 2, 3}
    else:
        c['PVals'] = set(sorted(consts['PVals'])[:2]) | ({3} if 3 in consts['PVals'] else set())
        c['MAXK'] = 1
    return c


def _run_one(job):
    group, km, mode, variant = job
    klepto = common.import_klepto()
    del kd.EVALS[:]
    return kd.run_group(klepto, group, km, mode, variant)


def real_traces(groups, rng, tier, modes=('keygen', 'std', 'safe'), kms=None):
    kms = kms or all_kms()
    jobs = []
    # serializer of picklemap, algorithm of hashmap (hashlib also accepts spellings such as 'SHA256' that are not listed
    # in algorithms_available), and the sentinel object when one is configured (klepto's own, or a falsy user value)
    variants = [dict(serializer='pickle', algorithm='md5'), dict(serializer=None, algorithm='sha1', sentval='empty'),
                dict(serializer='dill', algorithm='md5', sentval='zero'), dict(serializer='pickle', algorithm='SHA256', sentval='unit'),
                dict(serializer=None, algorithm='sha3_256'), dict(serializer='dill', algorithm='MD5', sentval='bytes')]
    for gi, g in enumerate(groups):
        for n, km in enumerate(kms):
            if tier != 'thorough' and len(kms) > 12 and (n + gi) % 3 != 0 and not (km['flat'] and not km['typed'] and not km['sentinel']) \
                    and not (g.get('allkms') and km['flat']):
                continue       # quick tier: the four plain flat keymaps always, a rotating third of the others
            for mode in modes:
                if mode in ('std', 'safe') and km['enc'] == 'raw' and not km['flat']:
                    continue       # (args, kwds) with a dict inside is unhashable: unusable as a dict key by design
                if mode == 'safe' and (tier != 'thorough' and n % 4 != g['sid'] % 4):
                    continue
                v = variants[(n + gi + g['sid']) % len(variants)]
                jobs.append((g, km, mode, v))
                if g.get('shared'):
                    jobs.append((g, km, mode, dict(v, shared=True)))
                # the same group as a functools.partial that binds the defaulted keyword-only parameter, as a method
                # (ignore=('self', ...)), and with a single-element ignore specification passed bare
                rot = (n + gi) % (1 if tier == 'thorough' else 4) == 0
                if g.get('plainonly'):
                    rot = False          # (a keyword called self cannot be passed to a method: plain functions only)
                if rot and ((g['sid'] % 48) // 8) % 3 == 2:
                    jobs.append((g, km, mode, dict(v, kind='partial')))
                # ... and as a functools.partial that presets a keyword which the function only collects in **kw
                if rot and ((g['sid'] % 48) // 24) % 2 == 1 and g['iid'] in (0, 6, 9):
                    jobs.append((g, km, mode, dict(v, kind='partialz')))
                if rot and g['iid'] in (0, 1, 2, 3, 4, 5, 6, 7, 8, 9, 10, 11):
                    jobs.append((g, km, mode, dict(v, kind='method')))
                    if (n + gi) % 2 == 0:
                        jobs.append((g, km, mode, dict(v, kind='method0')))
                # ... and as an instance of a class with __call__
                if rot and (n + gi + g['iid']) % 2 == 0:
                    jobs.append((g, km, mode, dict(v, kind='callable')))
                if rot and (any(p['hd'] for p in g['sig']['pos']) or any(p['hd'] for p in g['sig']['ko'])):
                    jobs.append((g, km, mode, dict(v, kind='sibling')))
                if rot and g['iid'] in (1, 2, 3, 4, 5, 6, 7, 8, 10) and mode != 'keygen':
                    jobs.append((dict(g, bare=True), km, mode, v))
    ctx = multiprocessing.get_context('fork')
    with ctx.Pool(common.NCPU) as pool:
        traces = pool.map(_run_one, jobs, chunksize=4)
    return traces


def signature(t, v, pid):
    e = t['events'][v[0] - 1]
    params = {p['n'] for p in t['sig']['pos']} | {p['n'] for p in t['sig']['ko']}
    ign = t['ign']
    varkw_only = bool(ign['names']) and all(n not in params for n in ign['names']) and not ign['idx'] \
        and not ign['star'] and not ign['dstar']
    ponames = {p['n'] for p in t['sig']['pos'] if p.get('po')}
    return {'engine': 'key', 'clauses': v[1], 'varkw_only_ignore': varkw_only, 'enc': t['km']['enc'], 'flat': t['km']['flat'],
            # some call of this group passes an extra keyword that has the name of a positional-only parameter
            'posonly_keyword': bool(ponames) and any(it['n'] in ponames for x in t['events'][:v[0]] for it in x['call']['k']),
            'mode': t['meta']['mode'], 'ignore': t['meta']['ignore'], 'callable': t['meta'].get('kind', 'plain'),
            'shared_objects': bool((t['meta'].get('variant') or {}).get('shared')), 'serializer': (t['meta'].get('variant') or {}).get('serializer'),
            'bare_ignore': bool(t['meta'].get('bare')),
            # the whole key is one bare positional value (variadic-only signature, one positional, no keyword)
            'lone_positional': not t['sig']['pos'] and not t['sig']['ko'] and len(e['call']['p']) == 1 and not e['call']['k'],
            'has_varargs': t['sig']['va'], 'has_varkw': t['sig']['vk'], 'kwonly': len(t['sig']['ko']) > 0,
            'exc': e['exc']}


def judge(rep, pid, traces, acc):
    """validate a batch of traces with TLC (KeyTrace), hand rejections to the report, accumulate the statistics in acc"""
    strip = [{k: t[k] for k in ('sig', 'ign', 'km', 'cached', 'events')} for t in traces]
    verdicts, st = common.validate_traces('KeyTrace', strip, [pid], per_slice=max(8, len(strip) // common.NCPU + 1))
    oracle = 0
    for t, v in zip(traces, verdicts):
        if v is None:
            continue
        if any(c.startswith('ORACLE') for c in v[1]):
            oracle += 1
            continue
        e = t['events'][v[0] - 1]
        rep.reject(signature(t, v, pid), {'sig': t['sig'], 'ign': t['ign'], 'sid': t['meta']['sid'], 'iid': t['meta']['iid'],
                                          'source': t['meta']['src'], 'ignore': t['meta']['ignore'],
                                          'keymap': t['km'], 'variant': t['meta']['variant'], 'mode': t['meta']['mode'],
                                          'event_index': v[0], 'clauses': v[1], 'event': e,
                                          'calls_before': [x['call'] for x in t['events'][:v[0]]][-40:]})
    if oracle:
        raise common.MachineryError('%d trace(s) rejected by ORACLE.* clauses: the TLA+ transcription of Python\'s '
                                    'argument binding disagrees with the interpreter' % oracle)
    acc['events'] = acc.get('events', 0) + sum(len(t['events']) for t in traces)
    acc['traces'] = acc.get('traces', 0) + len(traces)
    acc['states'] = acc.get('states', 0) + st['states']
    acc['tlc_events'] = acc.get('tlc_events', 0) + st['events']
    acc['wall'] = acc.get('wall', 0.0) + st['wall']
    acc['rejected'] = acc.get('rejected', 0) + sum(1 for v in verdicts if v)
    acc.setdefault('distinct', set()).update(common.trace_hash([t['sig'], t['ign'], t['km'], t['meta']['mode']]) for t in traces)
    if 'sample' not in acc and traces:
        s0 = traces[0]
        acc['sample'] = {'function': s0['meta']['src'], 'ignore': s0['meta']['ignore'], 'keymap': s0['km'], 'mode': s0['meta']['mode'],
                         'first_events': [{k: e[k] for k in ('call', 'kc', 'kind', 'evals', 'exc')} for e in s0['events'][:5]]}
    return acc


def finish(rep, pid, tier, mcs, cat_states, traces, extra_cov=None, assumptions=()):
    """traces: a list of traces still to be judged, or the accumulator of judge() calls already made"""
    acc = traces if isinstance(traces, dict) else judge(rep, pid, traces, {})
    cov = {'states': sum(m['distinct'] for m in mcs) + cat_states + acc.get('states', 0),
           'transitions': sum(m['generated'] for m in mcs) + acc.get('tlc_events', 0),
           'traces_validated_against_impl': acc.get('traces', 0), 'samples': [acc.get('sample', {'note': 'no trace'})],
           'evaluations': acc.get('events', 0), 'distinct_nontrivial': len(acc.get('distinct', ())),
           'rule': 'one trace = one catalogue group (signature x ignore spec) under one keymap configuration and one '
                   'decorator kind, containing every valid call within the bounds (groups with more calls than the cap are '
                   'sampled, seeded); every event is compared with all '
                   'earlier calls of its trace; distinct_nontrivial counts distinct (signature, ignore, keymap, mode) traces',
           'exhaustive': True,
           'model_checking': {'layer_I_pair_runs': mcs},
           'trace_validation': {'traces': acc.get('traces', 0), 'events': acc.get('events', 0), 'rejected': acc.get('rejected', 0),
                                'wall_s': round(acc.get('wall', 0.0), 1)}}
    if extra_cov:
        cov.update(extra_cov)
    return rep.finish('model_checking', cov, list(assumptions) + [
        'values are drawn from {1, 2, 1.0, True, "a", "x", "1", a long string, a tuple, a user object}; defaults are 2; signatures: 0-2 '
        'positional parameters (with/without default; none, the first or all of them positional-only), optional *args, 0-1 '
        'keyword-only parameter, optional **kw (144 shapes); plain functions, functools.partial (fixing the keyword-only default / a '
        '**kw keyword), methods (instance ignored by name or by index), callable instances, functions sharing a code object',
        'groups with more than 300 valid calls are sampled (seeded)',
        'exhaustive within these bounds only'])


def deviation_runs(rep, pid, work, mcs, groups_extra):
    devs = {}
    for d, (prop, over) in sorted(DEVIATIONS.items()):
        if prop != pid:
            continue
        c = dict(Deviations={d})
        c.update(over)
        r = tlc_pairs(c, work, workers=4)
        mcs.append(r)
        devs[d] = {'counterexample_found': r['violated']}
        if not r['violated']:
            rep.notes.append('deviation %s: no counterexample (model insensitive?)' % d)
        # the catalogue of the same small configuration is replayed on the real code
        c2 = dict(over)
        c2['Deviations'] = set()
        g, _ = tlc_catalogue(c2, work)
        groups_extra.extend(g)
    return devs


def check_generic(pid, tier, igns, modes=('keygen', 'std', 'safe'), pvals=None, extras=(), po=None):
    rep = common.Report(pid, tier)
    work = common.scratch('key')
    rng = random.Random(common.seed() + int(pid[1:]))
    CALL_CAP[0] = 300 if tier == 'thorough' else 200
    consts = base_consts(tier, igns, pvals=pvals, po=po)
    mcs = []
    pc = pair_consts(tier, consts)
    # layer I pair check, split over signature ids to use the cores
    sigs = sorted(consts['SigIds'])
    chunks = [sigs[i::4] for i in range(4)]
    from concurrent.futures import ThreadPoolExecutor
    with ThreadPoolExecutor(max_workers=4) as ex:
        for r in ex.map(lambda ch: tlc_pairs(dict(pc, SigIds=set(ch)), work, workers=4), [c for c in chunks if c]):
            mcs.append(r)
            if r['violated']:
                rep.note_drift('layer I pair counterexample (replayed with the catalogue on the real code): %s' % r['counterexample'][:600])
    groups, cat_states = tlc_catalogue(consts, work)
    extra = []
    devs = deviation_runs(rep, pid, work, mcs, extra)
    seen = {(g['sid'], g['iid']) for g in groups}
    groups += [g for g in extra if (g['sid'], g['iid']) not in seen]
    # small focused catalogues (their groups meet every flat keymap configuration, also in the quick tier)
    for over in extras:
        c2 = dict(base_consts(tier, igns), Deviations=set())
        c2.update({k: v for k, v in over.items() if k != 'shared'})
        gx, stx = tlc_catalogue(c2, work)
        cat_states += stx
        for g in gx:
            g['allkms'] = True
            if 'self' in over.get('KwNames', ()):
                g['plainonly'] = True
            if over.get('shared'):
                g['shared'] = True
        groups += gx
    # real side, in batches of groups (a thorough run has tens of thousands of traces)
    acc = {}
    step = 12 if tier == 'thorough' else max(1, len(groups))
    for lo in range(0, len(groups), step):
        traces = real_traces(groups[lo:lo + step], rng, tier, modes)
        judge(rep, pid, traces, acc)
        del traces
    return finish(rep, pid, tier, mcs, cat_states, acc, {'named_deviations': devs, 'groups': len(groups),
                                                          'sampled_groups': sum(1 for g in groups if 'calls_total' in g)})


def extra_for_C01(rep, tier):
    """C01 on the key catalogue: every call of every group through real std/safe caches under every keymap configuration;
    the value returned must be the function's own value for that call (rejections go to the cache engine's report).
    Returns a coverage dict."""
    work = common.scratch('key01')
    rng = random.Random(common.seed() + 1)
    CALL_CAP[0] = 300
    # (no ignore specification: the stub's value depends on every argument it receives)
    consts = base_consts(tier, {0}, pvals={1, 2, 3, 4, 5, 7} if tier == 'thorough' else {1, 2, 3})
    groups, cat_states = tlc_catalogue(consts, work)
    # one tuple argument against the same values passed separately; a positional string equal to a keyword name
    for over in (dict(SigIds={4, 5, 28}, PVals={1, 2, 10}, KwNames={'z'}, MAXP=2, MAXK=1),
                 dict(SigIds={4, 5}, PVals={1, 7}, KwNames={'z'}, MAXP=1, MAXK=0),
                 # a parameter given positionally AND by keyword (f(3, x=1)): Python rejects the call; so must the decorated function,
                 # also after valid calls have left results behind
                 dict(SigIds={1, 2, 26}, PVals={1, 2}, KwNames={'x', 'y'}, MAXP=2, MAXK=1, invalid=True),
                 dict(SigIds={28, 29}, PVals={1, 6}, KwNames={'x', 'z'}, MAXP=2, MAXK=1),
                 dict(SigIds={25, 28}, PVals={1, 2}, KwNames={'self', 'func', 'ignored'}, MAXP=1, MAXK=1)):
        inv = over.pop('invalid', False)
        gx, stx = tlc_catalogue(dict(base_consts(tier, {0}), Deviations=set(), **over), work, invalid=inv)
        cat_states += stx
        for g in gx:
            g['allkms'] = True
            if inv:
                g['plainonly'] = True
            if 'self' in over.get('KwNames', ()):
                g['plainonly'] = True
            if over.get('shared'):
                g['shared'] = True
        groups += gx
    acc = {}
    step = 12 if tier == 'thorough' else max(1, len(groups))
    for lo in range(0, len(groups), step):
        traces = real_traces(groups[lo:lo + step], rng, tier, modes=('std', 'safe'))
        for t in traces:
            t['meta']['variant'] = dict(t['meta']['variant'] or {}, replay='key')
        judge(rep, 'C01', traces, acc)
        del traces
    return {'groups': len(groups), 'traces': acc.get('traces', 0), 'events': acc.get('tlc_events', 0),
            'states': acc.get('states', 0) + cat_states, 'rejected': acc.get('rejected', 0), 'wall_s': round(acc.get('wall', 0.0), 1)}


def check_C09(tier):
    # extra: keyword arguments that are called like the parameters of klepto's own functions (self, func, ignored)
    return check_generic('C09', tier, {0}, pvals=None if tier == 'thorough' else {1, 5},
                         extras=[dict(SigIds={25, 28, 30}, PVals={1, 2}, KwNames={'self', 'func', 'ignored'}, MAXP=1, MAXK=1),
                                 # equal argument values that are one object / separate objects (floats, long strings)
                                 dict(SigIds={2, 4}, PVals={3, 8}, KwNames={'y'}, MAXP=2, MAXK=1, shared=True)])


def check_C10(tier):
    # extra: a positional string equal to a keyword NAME on signatures whose key keeps positionals (f('x', 1) vs f(x=1)):
    # without a sentinel the flat keys coincide by design, with any sentinel object they must differ
    return check_generic('C10', tier, {0}, pvals={1, 2, 3, 4, 5, 7} if tier == 'thorough' else {1, 2, 3, 7}, po={49, 73, 122},
                         extras=[dict(SigIds={28, 29}, PVals={1, 6}, KwNames={'x', 'z'}, MAXP=2, MAXK=1),
                                 # one tuple argument against the same values as separate arguments: f((1, 2)) vs f(1, 2)
                                 dict(SigIds={4, 5, 28}, PVals={1, 2, 10}, KwNames={'z'}, MAXP=2, MAXK=1),
                                 # a lone positional argument (keyed bare by the flat keymaps): 1 against '1', under every flat keymap
                                 dict(SigIds={4, 5}, PVals={1, 7}, KwNames={'z'}, MAXP=1, MAXK=0)])


def check_C11(tier):
    return check_generic('C11', tier, set(range(1, 12)), po={50, 73})


# ---------------------------------------------------------------------------------------------
# C17: interpreter sessions with different hash seeds
# ---------------------------------------------------------------------------------------------

def session(mode, items, seed_value, work, tag, reverse=False, preamble=False):
    job = os.path.join(work, 'job-%s.json' % tag)
    out = os.path.join(work, 'out-%s.json' % tag)
    json.dump({'repo': common.REPO, 'mode': mode, 'items': items, 'reverse': reverse, 'preamble': preamble}, open(job, 'w'))
    env = dict(os.environ)
    env['PYTHONHASHSEED'] = str(seed_value)
    env['PYTHONPATH'] = common.VERIF
    env.pop('PYTHONDONTWRITEBYTECODE', None)
    r = subprocess.run([common.PY, '-m', 'harness.key_driver', job, out], env=env, cwd=work, capture_output=True,
                       text=True, timeout=1800)
    if r.returncode != 0:
        raise common.MachineryError('key worker session failed: %s' % r.stderr[-2000:])
    return json.load(open(out))


def check_C17(tier):
    pid = 'C17'
    rep = common.Report(pid, tier)
    thorough = tier == 'thorough'
    work = common.scratch('key17')
    # values of two types (an int and a string): the typed part of a key must not depend on the spelling either
    consts = base_consts(tier, {0, 2, 9}, sigs=None if thorough else {2, 6, 14, 26, 30, 34, 47}, pvals=None if thorough else {1, 3, 5})
    groups, cat_states = tlc_catalogue(consts, work)
    # a second, small catalogue: one- and two-parameter functions called with a long string (keys longer than 200
    # characters) and with an instance of a user class
    # (one parameter: with two long arguments the key would exceed a file name's 255 characters, which dir_archive
    # silently drops - C03's known finding, not a matter of stability across sessions)
    c2 = base_consts(tier, {0}, sigs={1}, pvals={1, 8, 9})
    c2['MAXK'] = 1
    c2['MAXP'] = 1
    g2, st2 = tlc_catalogue(c2, work)
    cat_states += st2
    mcs = []
    kms = [k for k in all_kms() if not (k['enc'] == 'raw' and not k['flat'])]
    variants = [dict(serializer='pickle', algorithm='md5'), dict(serializer=None, algorithm='sha1'),
                dict(serializer='dill', algorithm='sha256'), dict(serializer='dill-module', algorithm='md5')]
    # named algorithms in spellings that hashlib accepts although algorithms_available does not list them; falsy sentinels
    more = [dict(serializer='pickle', algorithm='SHA256', sentval='empty'), dict(serializer=None, algorithm='MD5', sentval='zero'),
            dict(serializer='dill', algorithm='sha3_256', sentval='unit')]
    rot = variants[:3] + more
    items = []
    for gi, g in enumerate(groups):
        for n, km in enumerate(kms):
            items.append({'group': g, 'km': km, 'variant': rot[(n + gi + g['sid']) % len(rot)]})
    for g in g2:
        for n, km in enumerate(kms):
            if km['typed'] and km['sentinel']:
                continue
            for v in (variants if km['enc'] == 'pickle' else [rot[n % len(rot)]]):
                if km['enc'] == 'pickle' and v['serializer'] in ('pickle', None) and not thorough and n % 2:
                    continue
                items.append({'group': g, 'km': km, 'variant': v, 'objects': True})
    # three sessions compute every key
    seeds = [0, 1, 'random']
    from concurrent.futures import ThreadPoolExecutor
    with ThreadPoolExecutor(max_workers=3) as ex:
        # (the last session makes the calls of every group in the opposite order: a key must not depend on what the
        # process happened to key before)
        # (the second session has a past: it met arguments that cannot be keyed before it makes the calls that are compared)
        sess = list(ex.map(lambda s: session('keys', items, s, work, 'k%s' % s, reverse=(s == 'random'), preamble=(s == 1)), seeds))
    # writer / reader sessions on persistent archives, for a sample of the items
    rng = random.Random(common.seed() + 17)
    arch_items = []
    pick = items if thorough else rng.sample([i for i in items if not i.get('objects')], min(len(items), 200)) + [i for i in items if i.get('objects')][::2]
    for n, it in enumerate(pick):
        if it['km']['enc'] == 'raw':
            kinds = ['file', 'dir']
        elif it['km']['enc'] == 'pickle' and it['variant']['serializer'] in ('pickle', 'dill', 'dill-module'):
            kinds = ['file', 'dir']          # bytes keys: the sqlite fallback would accept them, keep to file/dir
        else:
            kinds = ['file', 'dir', 'sql']
        kind = kinds[n % len(kinds)]
        loc = os.path.join(work, 'arch%d' % n + ('.pkl' if kind == 'file' else '.db' if kind == 'sql' else ''))
        a = dict(it)
        a['archive'] = [kind, loc]
        a['index'] = items.index(it)
        arch_items.append(a)
    session('write', arch_items, 0, work, 'w')
    readers = [session('read', arch_items, s, work, 'r%s' % s, preamble=(s == 1)) for s in (1, 'random')]
    later = {}
    for n, a in enumerate(arch_items):
        later[a['index']] = [r[n]['kinds'] for r in readers]
    # traces: key-only events of the main process extended with the sessions' observations
    klepto = common.import_klepto()
    traces = []
    for n, it in enumerate(items):
        del kd.EVALS[:]
        t = kd.run_group(klepto, it['group'], it['km'], 'keygen', it['variant'])
        for ci, e in enumerate(t['events']):
            if it.get('objects'):
                # (this process imports the user class from a module, the sessions define it in __main__: only the
                # sessions are compared with each other)
                e['khex'] = [s[n]['khex'][ci] for s in sess]
            else:
                e['khex'] = e['khex'] + [s[n]['khex'][ci] for s in sess]
            if n in later:
                e['later'] = [kinds[ci] for kinds in later[n]]
        traces.append(t)
    return finish(rep, pid, tier, mcs, cat_states, traces,
                  {'sessions': [str(s) for s in seeds], 'archive_items': len(arch_items)},
                  ['sessions are fresh interpreter processes with PYTHONHASHSEED 0, 1 and random; keys are compared '
                   'through md5 of their canonical byte form (bytes / utf-8 / repr)',
                   'hashmap() with Python\'s hash is excluded by the statement; arguments are ints, floats, bools, strs'])


CHECKS = {'C09': check_C09, 'C10': check_C10, 'C11': check_C11, 'C17': check_C17}


def main(pid, tier):
    return CHECKS[pid](tier)


def replay(pid, path):
    """re-run the recorded group of calls (up to the rejected one) on the current tree and let TLC judge it again"""
    case = json.load(open(path))['case']
    if pid == 'C17' or 'ign' not in case:
        raise common.MachineryError('replay of %s needs the worker sessions: run ./check %s instead' % (pid, pid))
    klepto = common.import_klepto()
    del kd.EVALS[:]
    group = {'sid': case.get('sid', 0), 'iid': case.get('iid', 0), 'sig': case['sig'], 'ign': case['ign'],
             'calls': list(case['calls_before'])}
    t = kd.run_group(klepto, group, case['keymap'], case['mode'], case.get('variant'))
    verdicts, _ = common.validate_traces('KeyTrace', [{k: t[k] for k in ('sig', 'ign', 'km', 'cached', 'events')}], [pid])
    if verdicts[0] is None:
        print('replay: accepted on the current tree')
        return common.EXIT_OK
    print('VIOLATION property=%s replay=%s' % (pid, path))
    print('  clauses: %s at call %d' % (verdicts[0][1], verdicts[0][0]))
    return common.EXIT_VIOLATION

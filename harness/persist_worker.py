"""Worker process of the `persist` engine (C04): holds archive handles, executes one command per JSON line on
stdin and answers with one JSON line on stdout.  Started by harness/persist_checks.py with an explicit
environment (byte-code writing on or off, its own PYTHONHASHSEED).

  python -m harness.persist_worker <repo> <backend> <keyset> <valset> <workdir>
"""
import binascii
import json
import os
import sys

EVALS = []
NEXT = [0]


def main():
    repo, backend, keyset, valset, workdir = sys.argv[1:6]
    sys.path.insert(0, repo)
    import klepto
    assert os.path.realpath(klepto.__file__).startswith(os.path.realpath(repo)), klepto.__file__
    import dill
    from harness import dict_driver as dd
    rec = dd.Recorder.__new__(dd.Recorder)        # only the id <-> key/value mapping and the openers are used
    rec.klepto, rec.A, rec.backend, rec.base, rec.cached = klepto, klepto._archives, backend, backend, False
    rec.keys, rec.valset, rec.w = dd.key_sets(klepto)[keyset], valset, workdir
    nk = len(rec.keys)
    handles = {}

    def seen(h):
        d = dict(h.items())
        out = [0] * nk
        extra = False
        for rk, v in d.items():
            i = rec.kid(rk)
            if i < 0:
                extra = True
                continue
            out[i - 1] = rec.vid(v, i)
        if extra:
            out[nk - 1] = -7
        return out

    def touch(t):
        """every file and directory of the location gets modification time t (the scenario's clock)"""
        loc = rec.locname(1)
        paths = []
        if os.path.isdir(loc):
            for root, dirs, files in os.walk(loc):
                if '__pycache__' in root:
                    continue
                # files only: a directory's own mtime (ns resolution) is what the import system's finder watches,
                # and a real write always moves it
                paths += [os.path.join(root, f) for f in files]
        elif os.path.exists(loc):
            paths.append(loc)
        for p in paths:
            try:
                os.utime(p, (t, t))
            except OSError:
                pass

    def stub(*a, **k):
        EVALS.append(1)
        return rec.V(NEXT[0])

    calls = {1: ((1,), {}), 2: ((1, 2), {}), 3: (('a',), {}), 4: ((), {'x': 1})}     # the calls behind the keymap-* key sets

    for line in sys.stdin:
        cmd = json.loads(line)
        op = cmd['op']
        res = {'exc': 'none'}
        try:
            if op == 'open':
                handles[cmd['h']] = rec.raw_open(1)
                res['seen'] = seen(handles[cmd['h']])
            elif op in ('write', 'writemut'):
                h = handles[cmd['h']]
                val = rec.V(cmd['v'])
                h[rec.K(cmd['k'])] = val
                if op == 'writemut':          # the archive must hold a snapshot taken at store time
                    if isinstance(val, dict):
                        val['mutated'] = True
                        val['a'].append('mutated')
                    elif isinstance(val, list):
                        val.append('mutated')
                        val[0] = -1
                if 'mtime' in cmd:
                    touch(cmd['mtime'])
                res['seen'] = seen(h)
            elif op == 'del':
                h = handles[cmd['h']]
                del h[rec.K(cmd['k'])]
                if 'mtime' in cmd:
                    touch(cmd['mtime'])
                res['seen'] = seen(h)
            elif op == 'clear':
                h = handles[cmd['h']]
                h.clear()
                if 'mtime' in cmd:
                    touch(cmd['mtime'])
                res['seen'] = seen(h)
            elif op == 'read':
                res['seen'] = seen(handles[cmd['h']])
            elif op == 'export':
                h = handles[cmd['h']]
                if cmd['how'] == 'state':
                    blob = dill.dumps((type(h).__name__, h.state))
                else:
                    blob = dill.dumps(h)
                res['blob'] = binascii.hexlify(blob).decode()
                res['state'] = repr(sorted(h.state.items(), key=repr))
            elif op == 'rebuild':
                how = cmd['how']
                if how == 'copy':
                    src = handles[cmd['from']]
                    new = src.copy()
                    ref = repr(sorted(src.state.items(), key=repr))
                else:
                    obj = dill.loads(binascii.unhexlify(cmd['blob']))
                    ref = cmd['state']
                    if how == 'state':
                        cname, st = obj
                        cls = getattr(klepto._archives, cname)
                        if cname == 'dir_archive':
                            new = cls(dirname=st['id'], **st)
                        elif cname == 'file_archive':
                            new = cls(filename=st['id'], **st)
                        else:
                            new = cls(database=st['root'], table=st['id'], **st)
                    else:
                        new = obj
                handles[cmd['h']] = new
                res['same'] = repr(sorted(new.state.items(), key=repr)) == ref
                res['seen'] = seen(new)
            elif op == 'decorate':
                K = klepto.keymaps
                km = {'keymap-pickle': K.picklemap(), 'keymap-hash': K.hashmap(algorithm='md5'),
                      'keymap-str': K.stringmap(), 'keymap-raw': K.keymap()}[keyset]
                arch = rec.raw_open(1)
                c = klepto._archives.cache(archive=arch)
                f = klepto.inf_cache(cache=c, keymap=km)(stub)
                NEXT[0] = cmd['v']
                del EVALS[:]
                a, k = calls[cmd['k']]
                i0 = f.info()
                r = f(*a, **k)
                i1 = f.info()
                res['kind'] = 'hit' if i1.hit > i0.hit else 'load' if i1.load > i0.load else 'miss' if i1.miss > i0.miss else 'none'
                res['evals'] = len(EVALS)
                res['ret'] = rec.vid(r, cmd['k'])
                f.dump()
                if 'mtime' in cmd:
                    touch(cmd['mtime'])
                res['seen'] = seen(arch)
            elif op == 'quit':
                sys.stdout.write(json.dumps(res) + '\n')
                sys.stdout.flush()
                return
            else:
                res['exc'] = 'unknown-op'
        except BaseException as ex:
            if isinstance(ex, (KeyboardInterrupt, SystemExit)):
                raise
            res['exc'] = type(ex).__name__
            res['msg'] = str(ex)[:200]
        sys.stdout.write(json.dumps(res) + '\n')
        sys.stdout.flush()


if __name__ == '__main__':
    main()

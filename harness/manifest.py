"""writes /verif/MANIFEST.json from the table below (python -m harness.manifest)"""
import json
import os

from . import common

BASELINE = ("cd /repo && env -u KLEPTO_VERIF /venv/bin/python -m pytest -ra -q -p no:cacheprovider "
            "--timeout=900 --continue-on-collection-errors")

CACHE_NOTE = ("trusted: TLC, the recorder (harness/cache_driver.py), the mapping of real keys to key ids via "
              "f.key(); exhaustive only within the constants listed in the evidence; HDF5/sqlalchemy backends absent")

CLAIMED = {
    # pid: (engine, category, text, design_ref, level_note, technique)
    'C06': ('cache', 'model_checking',
            'TLC checks exhaustively (bounded) that the implementation-shaped model of the deque/refcount/compaction, '
            'Counter+nsmallest, deque-pop and random-choice mechanisms refines the policy clauses of layer P; '
            'TLC-generated behaviours (all short sequences + simulation walks through compaction) are replayed on '
            'the real decorators and every recorded step is judged by TLC against the same clauses',
            '4 (C06)', CACHE_NOTE,
            'TLA+ layer P/I refinement by TLC + trace validation of replayed TLC behaviours'),
}

PENDING = {}


def build():
    props = []
    with open(os.path.join(common.VERIF, 'properties.jsonl')) as f:
        for line in f:
            if line.strip():
                props.append(json.loads(line)['id'])
    checks = []
    for pid in props:
        if pid not in CLAIMED:
            continue
        engine, cat, text, ref, note, tech = CLAIMED[pid]
        checks.append({
            'property_id': pid,
            'quick_cmd': './check %s --tier quick' % pid,
            'thorough_cmd': './check %s --tier thorough' % pid,
            'evidence_file': 'evidence/%s.json' % pid,
            'replay_cmd_template': './check %s --replay {path}' % pid,
            'engine': engine,
            'level_claimed': {'category': cat, 'text': text, 'design_ref': 'DESIGN.md section ' + ref},
            'level_note': note,
            'technique': tech,
        })
    na = []
    for pid in props:
        if pid not in CLAIMED:
            na.append({'property_id': pid,
                       'reason': PENDING.get(pid, 'check not built yet in this round (planned: see DESIGN.md section 4)')})
    engines = {}
    for pid, v in CLAIMED.items():
        engines.setdefault(v[0], []).append(pid)
    m = {
        'version': 1,
        'setup_cmd': './setup.sh',
        'hooks': {
            'guard': 'KLEPTO_VERIF',
            'enable': 'no source hooks are needed: the checks observe klepto through its public API, closure cells, '
                      'audit hooks and strace; the guard name is reserved',
            'baseline_off_cmd': BASELINE,
            'source_commits': [],
            'add_only': True,
        },
        'engines': [{'name': k, 'path': 'harness/%s_checks.py' % k, 'serves_properties': sorted(v),
                     'kind_free_text': 'TLA+ specification + TLC model checking + trace validation / behaviour replay'}
                    for k, v in sorted(engines.items())],
        'checks': checks,
        'not_applicable': na,
        'notes': 'Explicit TLA+ specifications in specs/ (layer P = properties as named clauses, layer I = '
                 'implementation-shaped models); verdicts come only from real executions rejected by layer P. '
                 'See DESIGN.md.',
    }
    with open(os.path.join(common.VERIF, 'MANIFEST.json'), 'w') as f:
        json.dump(m, f, indent=1)
        f.write('\n')
    return m


if __name__ == '__main__':
    m = build()
    print('MANIFEST.json: %d checks, %d not_applicable' % (len(m['checks']), len(m['not_applicable'])))

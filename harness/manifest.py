"""writes /verif/MANIFEST.json from the table below (python -m harness.manifest)"""
import json
import os

from . import common

BASELINE = ("cd /repo && env -u KLEPTO_VERIF /venv/bin/python -m pytest -ra -q -p no:cacheprovider "
            "--timeout=900 --continue-on-collection-errors")

CACHE_NOTE = ("trusted: TLC, the recorder (harness/cache_driver.py), the mapping of real keys to key ids via "
              "f.key(); exhaustive only within the constants listed in the evidence; HDF5/sqlalchemy backends absent")

def _cache(text, ref):
    return ('cache', 'model_checking', text + ' TLC model-checks the implementation-shaped layer I (CacheImpl) '
            'against these clauses within the stated constants; TLC-generated behaviours (all short sequences, '
            'simulation walks) and scenario drivers are replayed on the real decorators over modules/backends/keymaps '
            'and every recorded step is judged by TLC (CacheTrace) against the same clauses.', ref, CACHE_NOTE,
            'TLA+ layer P/I refinement by TLC + trace validation of replayed TLC behaviours')


def _key(text):
    return ('key', 'model_checking', text + ' Python\'s argument binding is transcribed as the oracle (KeyP.PyBind, checked against the '
            'interpreter on every event); _keygen and the keymaps are transcribed as layer I (KeyImpl) and TLC checks every pair of '
            'calls of every catalogue group under all 32 keymap configurations; TLC emits the catalogue, every group is materialised '
            'as a real function and run through real klepto caches and keygen, and TLC judges every recorded call (KeyTrace).',
            '4 (C09/C10/C11, C17), 19', 'trusted: TLC, harness/key_driver.py; bounded catalogue (144 signature shapes incl. positional-only parameters, '
            'values {1,2,1.0,True,"a","x","1",long string,tuple,object}, <=2 positionals, <=2 keywords; partials, methods, callable instances, '
            'sibling functions; groups sampled above 300 calls)',
            'TLA+ transcription of binding + keygen, exhaustive pair check by TLC, catalogue replay + trace validation')


CLAIMED = {
    # pid: (engine, category, text, design_ref, level_note, technique)
    'C01': _cache('Clauses C01.*: every completed call returns F(args) (and returns at all: an operation that blocks for ever is an event); memory and archives only ever hold F values; '
                  'also on recursive (re-entrant) calls, on arguments whose keys exceed a file name, and - judged by KeyTrace - on the key engine\'s catalogue of signatures, spellings, keymaps, partials, methods and functions sharing a code object, including the calls Python rejects (C01.InvalidCallFails: the decorated function must reject them too).', '4 (C01), 17, 22'),
    'C02': _cache('Clauses C02.*: the stub is evaluated exactly when the key is neither resident nor in the bound archive; '
                  'a miss stores; ghost set of keys that must stay retrievable while an archive is attached (kept across f.archive(B)); second instance on the same archive; '
                  'injected archive read faults (no evaluation while the result is archived); recursive calls; results of a few hundred KB over compressed/plain directory and file archives.', '4 (C02), 17, 21'),
    'C05': _cache('Clauses C05.*: size after a call <= max(maxsize, size before); maxsize 0/None semantics; purge empties; every spelling of maxsize; recursive (re-entrant) calls, modelled in layer I as Enter/Return with a stack of pending calls.', '4 (C05), 17'),
    'C06': _cache('Clauses C06.*: victims are exactly those of LRU/MRU/LFU/RR computed from ghost recency/frequency; hits keep everything; also for cache keys that are false in a boolean test (0, empty string, empty tuple).', '4 (C06), 21'),
    'C07': _cache('Clauses C07.*: whatever leaves memory is in the archive with its value; archive entries never change; retrievability ghost.', '4 (C07)'),
    'C08': ('store', 'model_checking',
            'StoreP gives the exact post-state of every cache/archive operation (dict ops, direct archive writes, load/dump with and '
            'without keys, sync, archived on/off, open, drop, the bare archive property setter); TLC checks that StoreImpl (the __archive__/__swap__ mechanism) refines it '
            'exhaustively within bounds; generated behaviours are replayed on real klepto.archives.cache objects over 11 backends and '
            'every step is judged by TLC (StoreTrace).', '4 (C08), 21',
            'trusted: TLC, the recorder (harness/store_checks.py); keys k1..k3 / small int values; HDF5/sqlalchemy backends absent',
            'TLA+ layer P/I refinement by TLC + trace validation of replayed TLC behaviours'),
    'C09': _key('C09.*: calls with identical bindings get one key (every keymap class, flat or not, typed or not) and the second is served from the cache.'),
    'C10': _key('C10.*: calls binding unequal values (or, typed, differently typed values) to a non-ignored parameter never share a key under an information-preserving keymap; a hit returns the own result.'),
    'C11': _key('C11.*: calls differing only in ignored arguments (name, index, *, **) share a key and are not re-evaluated; everything else still discriminates.'),
    'C17': _key('C17.*: keys computed in three interpreter sessions (PYTHONHASHSEED 0, 1, random; one makes the calls in the opposite order, one has met unkeyable arguments before) are byte-identical; a writer session archives to file/dir/sqlite and reader sessions with other seeds find every call as a load.'),
    'C13': ('fs', 'fault_enumeration',
            'C13.*: after a kill at any file-system call of an operation a fresh process reads the archive without error, sees every '
            'untouched key unchanged, every touched key with its previous or its new value, and no key that was never stored. Layer I '
            '(DirFS, FileFS: one action per file-system call + Kill) is model-checked by TLC against the C13 clauses of FsP for every '
            'scenario, idealised (must hold) and with the deviations that describe the code as it is; every scenario is run on a real '
            'process whose system calls are recorded with strace, then killed on entry to each of its calls in turn (strace inject '
            'SIGKILL) and at synthesized partial writes; a fresh process reports its view and TLC judges every (contents, operation, '
            'view) triple (FsTrace). sqlite is enumerated at system-call granularity as well (its atomic commit is tested, not assumed).',
            '4 (C13)',
            'trusted: TLC, strace (kill on syscall entry), harness/fs_worker.py; process kill, not power loss; two keys; nine scenarios; '
            'HDF5/sqlalchemy backends absent',
            'TLA+ layer I with Kill model-checked by TLC + exhaustive kill-point enumeration on real processes (strace injection) + trace validation'),
    'C14': ('fs', 'model_checking',
            'C14.*: concurrent readers never fail, never see a key that was never stored or a value other than one stored for that key; '
            'writers to distinct keys never lose each other\'s entries; for the single file every reader/opener sees a complete earlier '
            'or later dictionary and no completed write is lost. Layer I (DirFS, FileFS: one action per file-system call, processes '
            'interleaving call by call) is model-checked by TLC over all interleavings of every scenario against the C14 clauses of FsP, '
            'idealised (must hold) and with the deviations that describe the code as it is; TLC generates the schedules with a bounded '
            'number of context switches (those predicted to violate first); each is executed by real processes parked before each of '
            'their file-system calls (audit hooks + open/exists wrappers in the worker launcher; SQL statements for sqlite) and released '
            'in schedule order; TLC judges every run\'s results and final view (FsTrace).', '4 (C14)',
            'trusted: TLC, harness/fs_worker.py stepping (audit events cover open/mkdir/rename/remove/rmdir/scandir), processes not threads; '
            'two or three operations, two keys (entries with a history, finished processes keep their handles, every process seeds the global random generator alike); sqlite at statement granularity; HDF5/sqlalchemy backends absent',
            'TLA+ layer I interleavings model-checked by TLC + TLC-generated schedules replayed on real processes (stepping controller) + trace validation'),
    'C15': _cache('Clauses C15.*: exactly one of hit/load/miss is incremented according to the pre-state class; size/maxsize; clear semantics; calls of a sibling function decorated by the same decorator object are not part of the account (sibcall); two stacked klepto decorators report the outer one.', '4 (C15), 21, 22'),
    'C16': _cache('Clauses C16.*: a raising call leaves every observable unchanged and re-raises the same object after one evaluation; '
                  'safe decorators fall back to plain evaluation for unkeyable arguments (unhashable, unprintable, unpicklable); a twin instance that never received the raising calls agrees.', '4 (C16), 20, 21'),
    'C18': _cache('Clauses C18.*: key() is the storage key, lookup() returns the resident value or KeyError, both are pure (a twin instance that never received the queries agrees); __wrapped__ is the decorated callable; with ignore/tol variants, equal arguments of different types, decorated partials and a decorated builtin without signature.', '4 (C18), 20, 21'),
    'C03': ('dict', 'model_checking',
            'C03.*: every mapping method returns what a dict holding the same contents returns, raises KeyError exactly when a dict '
            'does, leaves the contents a dict would have, never touches an archive stored under another name, a failed operation '
            'changes nothing and leaves the archive usable, len/keys agree with the contents, copy(name) is equal and independent, == '
            'compares contents, the null archive discards writes. DictP is the dict; DictImpl models how each archive family implements '
            'the protocol on its storage (whole-file read-modify-write, one directory per key named by _fname, SQL rows with history) '
            'and TLC checks it refines DictP exhaustively within bounds; TLC-generated and random operation sequences are replayed on '
            'every constructible archive configuration x key set x value set and TLC judges every recorded step (DictTrace).', '4 (C03)',
            'trusted: TLC, harness/dict_driver.py (id <-> key/value mapping, read-back through items()); a trace is judged beyond an event that is a known finding; 4 keys per key set, 3 '
            'locations; HDF5/sqlalchemy backends and numpy memory-mapping absent',
            'TLA+ layer P/I refinement by TLC + trace validation of replayed TLC behaviours'),
    'C04': ('persist', 'model_checking',
            'C04.*: every handle of every live process reads exactly what has been written (values as stored - a snapshot - and keys '
            'of their original type), also after the writer exited; a handle rebuilt from the reported state, from copy() or by '
            'unpickling (same or other process) reports the same settings and sees the same store; a cached function re-created on the '
            'location is served from it (load/hit, no evaluation). PersistImpl models handles without local contents over one store, '
            'process exit and the import system\'s byte-code cache behind the serialized=False readers; TLC checks it refines PersistP '
            'and generates behaviours that are replayed on two real worker processes per scenario for every persistent configuration, '
            'byte-code writing on and off, file times driven by the spec clock; TLC judges every step (PersistTrace). The single-process '
            'clauses are judged on the dict engine\'s behaviours (DictTrace) in the same run.', '4 (C04)',
            'trusted: TLC, harness/persist_worker.py and persist_checks.py; sequential operations only (concurrency is C14), normal '
            'process exit (crashes are C13); HDF5/sqlalchemy backends absent',
            'TLA+ layer P/I refinement by TLC + trace validation of TLC behaviours replayed on real worker processes'),
    'C12': ('round', 'model_checking',
            'C12.*: calls whose arguments round to identical trees share a key (and the second is a hit), calls that round to '
            'unequal trees never do, the function receives the caller\'s original arguments, tol=None is the identity, rounding '
            'never makes a valid call fail; the standalone simple/shallow/deep decorators hand exactly the oracle\'s rounded tree '
            'to the function. The oracle (RoundP.RoundTree) is exact half-to-even rounding of dyadic rationals on argument trees; '
            'simple_round/deep_round/shallow_round are transcribed as layer I (RoundImpl) and TLC checks them against the oracle over '
            'the catalogue; TLC emits the catalogue, every call is pushed through real caches (std/safe), keygen and the standalone '
            'decorators, and TLC judges every recorded call against all earlier calls of its trace (RoundTrace).', '4 (C12)',
            'trusted: TLC, harness/round_checks.py (tree <-> Python value mapping); floats are dyadic rationals so that a correctly '
            'rounded round() equals exact half-to-even rounding; 25 argument shapes (incl. a ChainMap and a dict with a two-character key) x two leaves (floats incl. values that round to -0.0, ints, strings, None, bool, range, namedtuple, ip network, one-shot iterator, class object, an object whose iter() raises); every call in its three spellings and with containers updated in place; tolerances None,-1,0,1,2',
            'TLA+ rounding oracle on trees + transcription of the rounders, exhaustive catalogue check by TLC, catalogue replay + trace validation'),
    'C19': ('valid', 'model_checking',
            'C19.*: isvalid is True exactly when the interpreter binds the call, validate returns None / raises TypeError accordingly, '
            'and neither ever runs the function. Python\'s binding (KeyP.PyBind) extended to bound methods, callable instances and '
            'functools.partial is the oracle of layer P (ValidP) and is itself compared with the interpreter on every case; '
            'signature()+validate() are transcribed as layer I (ValidImpl) and TLC checks every (target, call) of the catalogue; TLC '
            'emits the catalogue, every target is materialised as a real callable, every call is put to isvalid/validate/the '
            'interpreter, and TLC judges every recorded case (ValidTrace).', '4 (C19)',
            'trusted: TLC, harness/valid_checks.py; bounded catalogue (160 signature shapes x function/method/callable x partials '
            'fixing <=3 positionals and <=2 keywords; calls with <=4 positionals and <=3 keywords); positional-only parameters, functools.wraps wrappers and callable instances that carry function metadata included, '
            'nested partials or builtins',
            'TLA+ transcription of Python binding + signature()/validate(), exhaustive catalogue check by TLC, catalogue replay + trace validation'),
    'C20': _cache('Clauses C20.*: a dill round trip yields equal contents/statistics/binding - also when the snapshot is taken by another thread while a call is in flight; lock-step continuation of original and copy; every call of a copy is judged like a call of the original (result, evaluations, statistics); independence; a copy that blocks is a violation; chained keymaps and archives with non-default settings.', '4 (C20), 17'),
}

PENDING = {}


def build():
    props = []
    with open(os.path.join(common.VERIF, 'properties.jsonl')) as f:
        for line in f:
            if line.strip():
                props.append(json.loads(line)['id'])
    checks = []
    for pid in props:
        if pid not in CLAIMED:
            continue
        engine, cat, text, ref, note, tech = CLAIMED[pid]
        checks.append({
            'property_id': pid,
            'quick_cmd': './check %s --tier quick' % pid,
            'thorough_cmd': './check %s --tier thorough' % pid,
            'evidence_file': 'evidence/%s.json' % pid,
            'replay_cmd_template': './check %s --replay {path}' % pid,
            'engine': engine,
            'level_claimed': {'category': cat, 'text': text, 'design_ref': 'DESIGN.md section ' + ref},
            'level_note': note,
            'technique': tech,
        })
    na = []
    for pid in props:
        if pid not in CLAIMED:
            na.append({'property_id': pid,
                       'reason': PENDING.get(pid, 'check not built yet in this round (planned: see DESIGN.md section 4)')})
    engines = {}
    for pid, v in CLAIMED.items():
        engines.setdefault(v[0], []).append(pid)
    m = {
        'version': 1,
        'setup_cmd': './setup.sh',
        'hooks': {
            'guard': 'KLEPTO_VERIF',
            'enable': 'no source hooks are needed: the checks observe klepto through its public API, closure cells, '
                      'audit hooks and strace; the guard name is reserved',
            'baseline_off_cmd': BASELINE,
            'source_commits': [],
            'add_only': True,
        },
        'engines': [{'name': k, 'path': 'harness/%s_checks.py' % k, 'serves_properties': sorted(v),
                     'kind_free_text': 'TLA+ specification + TLC model checking + trace validation / behaviour replay'}
                    for k, v in sorted(engines.items())],
        'checks': checks,
        'not_applicable': na,
        'notes': 'Explicit TLA+ specifications in specs/ (layer P = properties as named clauses, layer I = '
                 'implementation-shaped models); verdicts come only from real executions rejected by layer P. '
                 'See DESIGN.md.',
    }
    with open(os.path.join(common.VERIF, 'MANIFEST.json'), 'w') as f:
        json.dump(m, f, indent=1)
        f.write('\n')
    return m


if __name__ == '__main__':
    m = build()
    print('MANIFEST.json: %d checks, %d not_applicable' % (len(m['checks']), len(m['not_applicable'])))

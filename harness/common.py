"""Common infrastructure for the klepto TLA+ verification harness.

- locating the repository under test (VERIF_REPO, default /repo)
- scratch directories (outside /repo and /verif, removed on exit)
- running TLC / SANY and parsing their output
- batch trace validation with a *total* trace specification (every trace gets a
  verdict; a rejected trace names the event index and the failed clauses)
- evidence files, known findings, replay files
"""
import atexit
import hashlib
import json
import os
import re
import shutil
import signal
import subprocess
import sys
import tempfile
import time
from concurrent.futures import ThreadPoolExecutor

VERIF = os.path.dirname(os.path.dirname(os.path.abspath(__file__)))
SPECS = os.path.join(VERIF, 'specs')
EVIDENCE = os.environ.get('VERIF_EVIDENCE') or os.path.join(VERIF, 'evidence')
REPLAYS = os.environ.get('VERIF_REPLAYS') or os.path.join(VERIF, 'replays')
REPO = os.path.abspath(os.environ.get('VERIF_REPO', '/repo'))
PY = os.environ.get('VERIF_PYTHON', '/venv/bin/python')
JAR = '/opt/veriftools/tla/tla2tools.jar:/opt/veriftools/tla/CommunityModules-deps.jar'
NCPU = int(os.environ.get('VERIF_JOBS', os.cpu_count() or 4))

EXIT_OK, EXIT_VIOLATION, EXIT_MACHINERY = 0, 1, 2


class MachineryError(Exception):
    """TLC / strace / harness failure: exit code 2, never a violation."""


def seed():
    try:
        return int(os.environ.get('VERIF_SEED', '0'))
    except ValueError:
        return 0


_scratch_root = None


def scratch(prefix='kv'):
    """a fresh scratch directory, removed at exit"""
    global _scratch_root
    if _scratch_root is None:
        base = os.environ.get('VERIF_SCRATCH', tempfile.gettempdir())
        _scratch_root = tempfile.mkdtemp(prefix='klepto-verif-', dir=base)
        atexit.register(shutil.rmtree, _scratch_root, True)
    return tempfile.mkdtemp(prefix=prefix + '-', dir=_scratch_root)


_other_tmp = [None]


def other_fs_tmp():
    """a scratch directory on a file system OTHER than the one the scratch directories live on (removed at exit), or None:
    worker processes get it as TMPDIR, so that anything the library stages in the system's temporary directory has to be
    moved across file systems (os.rename fails with EXDEV there; a copy is not atomic)"""
    if _other_tmp[0] is None:
        _other_tmp[0] = ''
        base = os.environ.get('VERIF_SCRATCH', tempfile.gettempdir())
        for cand in ('/dev/shm', '/run/shm', '/var/tmp'):
            try:
                if os.path.isdir(cand) and os.access(cand, os.W_OK) and os.stat(cand).st_dev != os.stat(base).st_dev:
                    d = tempfile.mkdtemp(prefix='klepto-verif-tmp-', dir=cand)
                    atexit.register(shutil.rmtree, d, True)
                    _other_tmp[0] = d
                    break
            except OSError:
                continue
    return _other_tmp[0] or None


def repo_identity():
    def git(*a):
        try:
            return subprocess.run(['git', '-C', REPO] + list(a), capture_output=True,
                                  text=True, timeout=60).stdout
        except Exception:
            return ''
    head = git('rev-parse', 'HEAD').strip()
    diff = git('diff', 'HEAD')
    return {'repo': REPO, 'head': head,
            'diff_sha1': hashlib.sha1(diff.encode()).hexdigest() if diff else None}


def import_klepto():
    """import klepto from the repository under test and make sure it is that one"""
    if REPO not in sys.path:
        sys.path.insert(0, REPO)
    import klepto
    here = os.path.realpath(os.path.dirname(klepto.__file__))
    if not here.startswith(os.path.realpath(REPO)):
        raise MachineryError('klepto imported from %s, not from %s' % (here, REPO))
    return klepto


# ---------------------------------------------------------------------------------------------
# TLC
# ---------------------------------------------------------------------------------------------

_RE_STATES = re.compile(r'(\d+) states generated, (\d+) distinct states found')
_RE_DEPTH = re.compile(r'The depth of the complete state graph search is (\d+)')


class TLCResult(object):
    def __init__(self, out, rc, wall):
        self.out, self.rc, self.wall = out, rc, wall
        m = _RE_STATES.findall(out)
        self.generated = int(m[-1][0]) if m else 0
        self.distinct = int(m[-1][1]) if m else 0
        d = _RE_DEPTH.findall(out)
        self.depth = int(d[-1]) if d else 0
        self.violated = ('is violated' in out) or ('Error: Action property' in out) \
            or ('Error: Temporal properties were violated' in out)
        self.error = ('Error:' in out) and not self.violated
        self.ok = (rc == 0) and not self.violated and not self.error

    def coverage(self):
        """per-action counts from -coverage output: {action: (distinct, total)}"""
        cov = {}
        for m in re.finditer(r'<(\w+) line \d+, col \d+ to line \d+, col \d+ of module (\w+)>: (\d+):(\d+)', self.out):
            cov[m.group(1)] = (int(m.group(3)), int(m.group(4)))
        return cov


def _die_with_parent():
    """(in the child, before exec) ask the kernel to kill this process when the check that started it dies - a check killed by
    the OOM killer or by a timeout must not leave model checkers behind that load the machine for the next one"""
    try:
        import ctypes
        ctypes.CDLL('libc.so.6', use_errno=True).prctl(1, signal.SIGKILL)      # PR_SET_PDEATHSIG
    except Exception:
        pass


def run_tlc(module, cfg, workdir=None, workers=None, env=None, extra=(), timeout=1800,
            heap='4g', simulate=None, depth=None, coverage=False):
    """run TLC on specs/<module>.tla with config file `cfg` (absolute path or relative to specs/)"""
    workdir = workdir or scratch('tlc')
    metadir = tempfile.mkdtemp(prefix='meta-', dir=workdir)
    cfgpath = cfg if os.path.isabs(cfg) else os.path.join(SPECS, cfg)
    cmd = ['java', '-XX:+UseParallelGC', '-XX:ParallelGCThreads=%d' % max(2, min(8, workers or NCPU)),
           '-Xmx' + heap, '-cp', JAR]
    cmd += ['tlc2.TLC', '-metadir', metadir, '-noGenerateSpecTE',
            '-workers', str(workers or NCPU), '-config', cfgpath]
    if simulate:
        cmd += ['-simulate', simulate]
    if depth:
        cmd += ['-depth', str(depth)]
    if coverage:
        cmd += ['-coverage', '1']
    cmd += list(extra)
    cmd += [os.path.join(SPECS, module + '.tla')]
    e = dict(os.environ)
    e.pop('JAVA_TOOL_OPTIONS', None)
    if env:
        e.update(env)
    t0 = time.time()
    try:
        p = subprocess.run(cmd, cwd=SPECS, env=e, capture_output=True, text=True, timeout=timeout, preexec_fn=_die_with_parent)
    except subprocess.TimeoutExpired:
        raise MachineryError('TLC timed out after %ss on %s / %s' % (timeout, module, cfg))
    finally:
        shutil.rmtree(metadir, True)
    out = p.stdout + p.stderr
    return TLCResult(out, p.returncode, time.time() - t0)


def write_cfg(path, spec='Spec', constants=None, invariants=(), properties=(), constraints=(),
              view=None, postcondition=None, deadlock=False, action_constraints=()):
    lines = ['SPECIFICATION %s' % spec]
    if constants:
        lines.append('CONSTANTS')
        for k, v in constants.items():
            lines.append('  %s = %s' % (k, tla_value(v)))
    for i in invariants:
        lines.append('INVARIANT %s' % i)
    for p in properties:
        lines.append('PROPERTY %s' % p)
    for c in constraints:
        lines.append('CONSTRAINT %s' % c)
    for c in action_constraints:
        lines.append('ACTION_CONSTRAINT %s' % c)
    if view:
        lines.append('VIEW %s' % view)
    if postcondition:
        lines.append('POSTCONDITION %s' % postcondition)
    lines.append('CHECK_DEADLOCK %s' % ('TRUE' if deadlock else 'FALSE'))
    with open(path, 'w') as f:
        f.write('\n'.join(lines) + '\n')
    return path


def tla_value(v):
    """python value -> TLA+ cfg literal"""
    if isinstance(v, bool):
        return 'TRUE' if v else 'FALSE'
    if isinstance(v, int):
        return str(v)
    if isinstance(v, str):
        return '"%s"' % v
    if isinstance(v, (set, frozenset)):
        return '{' + ', '.join(tla_value(x) for x in sorted(v, key=repr)) + '}'
    if isinstance(v, (list, tuple)):
        return '<<' + ', '.join(tla_value(x) for x in v) + '>>'
    raise TypeError(v)


# ---------------------------------------------------------------------------------------------
# batch trace validation
# ---------------------------------------------------------------------------------------------

_RE_REJECT = re.compile(r'<<\s*"REJECT",\s*(\d+),\s*(\d+),\s*\{([^}]*)\}\s*>>', re.S)
_RE_DONE = re.compile(r'<<\s*"DONE",\s*(\d+)\s*>>')


def validate_traces(module, traces, props, constants=None, jobs=None, per_slice=400,
                    timeout=1800, multi=False):
    """validate traces (list of JSON-able dicts) against specs/<module>.tla.

    The trace module is total: for every trace it either consumes all events or stops at the
    first event with a non-empty set of failed clauses and prints <<"REJECT", tid, index, {clauses}>>.
    Returns (verdicts, stats): verdicts[i] = None if accepted, else (event_index(1-based), [clauses]).
    multi=True is for trace modules whose events are judged independently (no state carried from one
    event to the next): the module does not stop at a rejected event, it prints one REJECT line per
    failing event and consumes the whole trace; verdicts[i] is then None or a list of (index, [clauses]).
    """
    jobs = jobs or NCPU
    n = len(traces)
    verdicts = [None] * n
    if n == 0:
        return verdicts, {'states': 0, 'events': 0, 'wall': 0.0}
    nslices = max(1, min(jobs, (n + per_slice - 1) // per_slice))
    # balance by event count
    order = sorted(range(n), key=lambda i: -len(traces[i].get('events', ())))
    slices = [[] for _ in range(nslices)]
    for j, i in enumerate(order):
        slices[j % nslices].append(i)
    work = scratch('trace')
    consts = {'Props': set(props)}
    if constants:
        consts.update(constants)

    def one(si):
        idx = slices[si]
        d = os.path.join(work, 's%d' % si)
        os.makedirs(d)
        tf = os.path.join(d, 'traces.json')
        with open(tf, 'w') as f:
            json.dump({'traces': [traces[i] for i in idx]}, f)
        cfg = write_cfg(os.path.join(d, 'trace.cfg'), spec='TraceSpec', constants=consts)
        r = run_tlc(module, cfg, workdir=d, workers=1, env={'TRACE_FILE': tf}, timeout=timeout)
        if r.error or r.rc not in (0,):
            raise MachineryError('trace validation failed to run (%s):\n%s' % (module, r.out[-3000:]))
        rej = {}
        for m in _RE_REJECT.finditer(r.out):
            clauses = [c.strip().strip('"') for c in m.group(3).split(',') if c.strip()]
            if multi:
                rej.setdefault(int(m.group(1)), []).append((int(m.group(2)), sorted(clauses)))
            else:
                rej[int(m.group(1))] = (int(m.group(2)), sorted(clauses))
        nev = sum(len(traces[i]['events']) for i in idx)
        # every trace contributes len+1 states when accepted; a rejected one contributes
        # (index-1)+1 accepted-prefix states + 1 reject state
        expect = 0
        for pos, i in enumerate(idx, 1):
            L = len(traces[i]['events'])
            if pos in rej and not multi:
                expect += rej[pos][0] + 1
            else:
                expect += L + 1
        if r.distinct != expect:
            raise MachineryError('trace validation state count mismatch in %s: %d distinct, expected %d\n%s'
                                 % (module, r.distinct, expect, r.out[-3000:]))
        return [(idx[pos - 1], v) for pos, v in rej.items()], r.distinct, nev, r.wall

    t0 = time.time()
    states = events = 0
    with ThreadPoolExecutor(max_workers=jobs) as ex:
        for rejs, st, nev, _ in ex.map(one, range(nslices)):
            states += st
            events += nev
            for i, v in rejs:
                verdicts[i] = v
    shutil.rmtree(work, True)
    return verdicts, {'states': states, 'events': events, 'wall': time.time() - t0, 'slices': nslices}


# ---------------------------------------------------------------------------------------------
# evidence / findings / replays
# ---------------------------------------------------------------------------------------------

def trace_hash(obj):
    return hashlib.sha1(json.dumps(obj, sort_keys=True, default=repr).encode()).hexdigest()[:12]


def write_replay(pid, payload):
    os.makedirs(REPLAYS, exist_ok=True)
    h = trace_hash(payload)
    path = os.path.join(REPLAYS, '%s-%s.json' % (pid, h))
    with open(path, 'w') as f:
        json.dump(payload, f, indent=1, sort_keys=True, default=repr)
    return path


def load_findings():
    path = os.path.join(VERIF, 'known_findings.json')
    if not os.path.exists(path):
        return []
    with open(path) as f:
        return json.load(f).get('findings', [])


def match_finding(pid, signature, findings=None):
    """a rejection matches a known finding when every key of the finding's signature is present
    with the same value in the rejection's signature (lists in the finding = allowed alternatives)"""
    findings = load_findings() if findings is None else findings
    for fd in findings:
        if fd.get('property') != pid or fd.get('status') != 'known':
            continue
        ok = True
        for k, v in fd.get('signature', {}).items():
            got = signature.get(k)
            if isinstance(v, list) and isinstance(got, list):
                if not set(map(str, got)) <= set(map(str, v)):
                    ok = False
                    break
            elif isinstance(v, list) and not isinstance(got, list):
                if got not in v:
                    ok = False
                    break
            elif got != v:
                ok = False
                break
        if ok:
            return fd
    return None


def write_evidence(pid, tier, level, coverage, wall, violations, assumptions=(), extra=None):
    os.makedirs(EVIDENCE, exist_ok=True)
    ev = {
        'property_id': pid,
        'tier': tier,
        'seed': seed(),
        'level': level,
        'coverage': coverage,
        'assumptions': list(assumptions),
        'wall_s': round(wall, 2),
        'violations': violations,
        'repo': repo_identity(),
    }
    if extra:
        ev.update(extra)
    path = os.path.join(EVIDENCE, '%s.json' % pid)
    tmp = path + '.tmp'
    with open(tmp, 'w') as f:
        json.dump(ev, f, indent=1, sort_keys=True, default=repr)
    os.replace(tmp, path)
    return path


class Report(object):
    """collects outcomes of one check run and turns them into stdout lines + exit code"""

    def __init__(self, pid, tier):
        self.pid, self.tier = pid, tier
        self.violations = []      # (signature, replay payload)
        self.known = {}           # finding id -> (finding, count)
        self.drift = []
        self.notes = []
        self.findings = load_findings()
        self.t0 = time.time()
        # replay files of earlier runs of this property are stale
        if os.path.isdir(REPLAYS):
            for f in os.listdir(REPLAYS):
                if f.startswith(pid + '-'):
                    try:
                        os.remove(os.path.join(REPLAYS, f))
                    except OSError:
                        pass

    def reject(self, signature, payload):
        fd = match_finding(self.pid, signature, self.findings)
        if fd is not None:
            c = self.known.setdefault(fd['id'], [fd, 0, payload])
            c[1] += 1
            return 'known'
        self.violations.append((signature, payload))
        return 'violation'

    def note_drift(self, msg):
        if len(self.drift) < 50 and msg not in self.drift:
            self.drift.append(msg)

    def finish(self, level, coverage, assumptions=()):
        wall = time.time() - self.t0
        seen = set()
        nviol = 0
        for sig, payload in self.violations:
            key = json.dumps(sig, sort_keys=True, default=repr)
            if key in seen:
                continue
            seen.add(key)
            nviol += 1
            if nviol <= 20:
                path = write_replay(self.pid, {'property': self.pid, 'signature': sig, 'case': payload})
                print('VIOLATION property=%s replay=%s' % (self.pid, path))
                print('  signature: %s' % json.dumps(sig, sort_keys=True, default=repr))
        for fid, (fd, count, payload) in sorted(self.known.items()):
            print('KNOWN-FINDING: property=%s %s [%s; %d rejected case(s) this run]' % (self.pid, fd['what'], fid, count))
        for d in self.drift[:10]:
            print('MODEL-DRIFT %s' % d)
        coverage = dict(coverage)
        coverage['violation_signatures'] = [json.loads(k) for k in sorted(seen)][:3000]
        coverage['known_findings_observed'] = {k: v[1] for k, v in self.known.items()}
        coverage['model_drift'] = self.drift[:20]
        if self.notes:
            coverage['notes'] = self.notes
        write_evidence(self.pid, self.tier, level, coverage, wall, nviol, assumptions)
        print('%s %s: %s in %.1fs (%d violation signature(s), %d known finding(s))' % (
            self.pid, self.tier, 'FAIL' if nviol else 'ok', wall, nviol, len(self.known)))
        return EXIT_VIOLATION if nviol else EXIT_OK

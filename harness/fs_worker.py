"""Worker / viewer process of the `fs` engine (C13 crash atomicity, C14 concurrent processes).

  python -m harness.fs_worker <repo> <backend> <workdir> op   '<json: {"init": [..], "op": {...}, "keys": "str"|"tuple"}>'
      builds the prior contents through its own handle, prints "ready", waits for a line on stdin, performs the
      operation, prints its result as one JSON line and exits at once
  python -m harness.fs_worker <repo> <backend> <workdir> view '<json: {"keys": ...}>'
      a fresh process: opens the archive and prints what it sees (len, keys, items, cache.load()) as one JSON line

Keys are ids 1..NK, values are positive ints.
"""
import json
import os
import sys

NK = 2


def keyobj(keys, k):
    if keys == 'tuple':            # not a valid directory name: dir_archive stores the key in an input file
        return ('key', k)
    return 'k%d' % k


def keyid(keys, rk):
    for k in range(1, NK + 1):
        if rk == keyobj(keys, k) and type(rk) is type(keyobj(keys, k)):
            return k
    return -7


def location(backend, w):
    base = backend
    if base == 'file':
        return os.path.join(w, 'arch.pkl')
    if base == 'file-json':
        return os.path.join(w, 'arch.json')
    if base == 'file-py':
        return os.path.join(w, 'archsrc.py')
    if base.startswith('dir'):
        return os.path.join(w, 'archdir')
    return 'sqlite:///' + os.path.join(w, 'arch.db')


def settings(backend):
    return {'file': {}, 'file-json': {'protocol': 'json'}, 'file-py': {'serialized': False},
            'dir': {}, 'dir-fast': {'fast': True}, 'dir-compressed': {'compression': 3}, 'dir-json': {'protocol': 'json'},
            'dir-py': {'serialized': False}, 'sql-file': {}}[backend]


def raw_open(klepto, backend, w):
    A = klepto._archives
    loc = location(backend, w)
    if backend.startswith('file'):
        return A.file_archive(loc, **settings(backend))
    if backend.startswith('dir'):
        return A.dir_archive(loc, **settings(backend))
    return A.sqltable_archive(loc, 'memo')


def front_open(klepto, backend, w, cached):
    """the public constructors of klepto.archives (what a user calls)"""
    A = klepto.archives
    loc = location(backend, w)
    if backend.startswith('file'):
        return A.file_archive(loc, cached=cached, **settings(backend))
    if backend.startswith('dir'):
        return A.dir_archive(loc, cached=cached, **settings(backend))
    return A.sqltable_archive(loc + '?table=memo', cached=cached)


def project(keys, d):
    out = [0] * NK
    phantom = 0
    for rk, v in d.items():
        k = keyid(keys, rk)
        if k < 0:
            phantom = -7
            continue
        out[k - 1] = v if isinstance(v, int) and not isinstance(v, bool) and v > 0 else -8
    return out, phantom


def do_op(klepto, backend, w, keys, a, op):
    """returns [ok, exc, i, m]"""
    K = lambda k: keyobj(keys, k)
    t = op['t']
    res = {'ok': True, 'exc': 'none', 'i': 0, 'm': [0] * NK}
    try:
        if t == 'set':
            a[K(op['k'])] = op['v']
        elif t == 'update':
            a.update({K(op['k']): op['v'], K(op['k2']): op['v2']})
        elif t == 'dump':
            a.dump()                       # `a` is a cache front holding the two entries
        elif t == 'del':
            del a[K(op['k'])]
        elif t == 'pop':
            res['i'] = a.pop(K(op['k']))
        elif t == 'clear':
            a.clear()
        elif t == 'open':
            front_open(klepto, backend, w, cached=False)
        elif t == 'get':
            res['i'] = a[K(op['k'])]
        elif t == 'contains':
            res['i'] = 1 if K(op['k']) in a else 0
        elif t == 'len':
            res['i'] = len(a)
        elif t == 'keys':
            ks = list(a.keys())
            ids = [keyid(keys, k) for k in ks]
            res['m'] = [1 if k in ids else 0 for k in range(1, NK + 1)]
            res['i'] = -7 if any(i < 0 for i in ids) else 0
        elif t == 'items':
            res['m'], res['i'] = project(keys, dict(a.items()))
        elif t == 'load':
            c = klepto._archives.cache(archive=a)
            c.load()
            res['m'], res['i'] = project(keys, dict(dict.items(c)))
        else:
            raise RuntimeError('unknown op %r' % t)
    except RuntimeError:
        raise
    except BaseException as ex:
        if isinstance(ex, (KeyboardInterrupt, SystemExit)):
            raise
        res = {'ok': False, 'exc': type(ex).__name__, 'i': 0, 'm': [0] * NK, 'msg': str(ex)[:160]}
    if not isinstance(res['i'], int) or isinstance(res['i'], bool):
        res['i'] = -8
    return res


def view(klepto, backend, w, keys):
    v = {'lenok': True, 'len': 0, 'keysok': True, 'keys': [], 'itemsok': True, 'items': [0] * NK, 'loadok': True, 'load': [0] * NK,
         'errors': []}
    try:
        a = raw_open(klepto, backend, w)
    except Exception as ex:
        v.update(lenok=False, keysok=False, itemsok=False, loadok=False)
        v['errors'].append('open: %s: %s' % (type(ex).__name__, str(ex)[:120]))
        return v
    try:
        v['len'] = len(a)
    except Exception as ex:
        v['lenok'] = False
        v['errors'].append('len: %s: %s' % (type(ex).__name__, str(ex)[:120]))
    try:
        v['keys'] = sorted(keyid(keys, k) for k in list(a.keys()))
    except Exception as ex:
        v['keysok'] = False
        v['errors'].append('keys: %s: %s' % (type(ex).__name__, str(ex)[:120]))
    try:
        m, ph = project(keys, dict(a.items()))
        if ph:
            m[NK - 1] = -7
        v['items'] = m
    except Exception as ex:
        v['itemsok'] = False
        v['errors'].append('items: %s: %s' % (type(ex).__name__, str(ex)[:120]))
    try:
        c = front_open(klepto, backend, w, cached=True)
        c.load()
        m, ph = project(keys, dict(dict.items(c)))
        if ph:
            m[NK - 1] = -7
        v['load'] = m
    except Exception as ex:
        v['loadok'] = False
        v['errors'].append('load: %s: %s' % (type(ex).__name__, str(ex)[:120]))
    return v


def main():
    repo, backend, w, role, arg = sys.argv[1:6]
    sys.path.insert(0, repo)
    import klepto
    assert os.path.realpath(klepto.__file__).startswith(os.path.realpath(repo)), klepto.__file__
    spec = json.loads(arg)
    keys = spec.get('keys', 'str')
    if role == 'view':
        sys.stdout.write(json.dumps(view(klepto, backend, w, keys)) + '\n')
        sys.stdout.flush()
        return
    a = raw_open(klepto, backend, w)
    for k, v in enumerate(spec['init'], 1):
        if v:
            a[keyobj(keys, k)] = v
    op = spec['op']
    if op['t'] == 'dump':
        c = klepto._archives.cache(archive=a)
        c[keyobj(keys, op['k'])] = op['v']
        c[keyobj(keys, op['k2'])] = op['v2']
        a = c
    sys.stdout.write('ready\n')
    sys.stdout.flush()
    sys.stdin.readline()
    res = do_op(klepto, backend, w, keys, a, op)
    try:
        sys.stdout.write(json.dumps(res) + '\n')
        sys.stdout.flush()
    finally:
        os._exit(0)


if __name__ == '__main__':
    main()

"""Worker / viewer process of the `fs` engine (C13 crash atomicity, C14 concurrent processes).

  python -m harness.fs_worker <repo> <backend> <workdir> op   '<json: {"init": [..], "op": {...}, "keys": "str"|"tuple"}>'
      builds the prior contents through its own handle, prints "ready", waits for a line on stdin, performs the
      operation, prints its result as one JSON line and exits at once
  python -m harness.fs_worker <repo> <backend> <workdir> view '<json: {"keys": ...}>'
      a fresh process: opens the archive and prints what it sees (len, keys, items, cache.load()) as one JSON line

Keys are ids 1..NK, values are positive ints.
"""
import json
import os
import sys

NK = 2


BIG = 150000        # characters of a "big" value (many database / file-system pages)


def keyobj(keys, k):
    if keys == 'tuple':            # not a valid directory name: dir_archive stores the key in an input file
        return ('key', k)
    return 'k%d' % k


def valobj(keys, v):
    """keys == 'big': string keys and values that span many pages ('<id>:xxxx...'); otherwise the id itself"""
    if keys == 'big' and isinstance(v, int) and v > 0:
        return '%d:' % v + 'x' * BIG
    return v


def valid(keys, x):
    """real value -> id (negative: not a value that was ever stored, e.g. a torn one)"""
    if keys == 'big':
        if isinstance(x, str) and ':' in x:
            head, tail = x.split(':', 1)
            if head.isdigit() and tail == 'x' * BIG:
                return int(head)
        return -8
    return x if isinstance(x, int) and not isinstance(x, bool) and x > 0 else -8


def keyid(keys, rk):
    for k in range(1, NK + 1):
        if rk == keyobj(keys, k) and type(rk) is type(keyobj(keys, k)):
            return k
    return -7


def location(backend, w):
    base = backend
    if base == 'file':
        return os.path.join(w, 'arch.pkl')
    if base == 'file-json':
        return os.path.join(w, 'arch.json')
    if base == 'file-py':
        return os.path.join(w, 'archsrc.py')
    if base.startswith('dir'):
        return os.path.join(w, 'archdir')
    return 'sqlite:///' + os.path.join(w, 'arch.db')


def settings(backend):
    return {'file': {}, 'file-json': {'protocol': 'json'}, 'file-py': {'serialized': False},
            'dir': {}, 'dir-fast': {'fast': True}, 'dir-compressed': {'compression': 3}, 'dir-json': {'protocol': 'json'},
            'dir-py': {'serialized': False}, 'sql-file': {}}[backend]


def raw_open(klepto, backend, w):
    A = klepto._archives
    loc = location(backend, w)
    if backend.startswith('file'):
        return A.file_archive(loc, **settings(backend))
    if backend.startswith('dir'):
        return A.dir_archive(loc, **settings(backend))
    return A.sqltable_archive(loc, 'memo')


def front_open(klepto, backend, w, cached):
    """the public constructors of klepto.archives (what a user calls)"""
    A = klepto.archives
    loc = location(backend, w)
    if backend.startswith('file'):
        return A.file_archive(loc, cached=cached, **settings(backend))
    if backend.startswith('dir'):
        return A.dir_archive(loc, cached=cached, **settings(backend))
    return A.sqltable_archive(loc + '?table=memo', cached=cached)


def project(keys, d):
    out = [0] * NK
    phantom = 0
    for rk, v in d.items():
        k = keyid(keys, rk)
        if k < 0:
            phantom = -7
            continue
        out[k - 1] = valid(keys, v)
    return out, phantom


def do_op(klepto, backend, w, keys, a, op):
    """returns [ok, exc, i, m]"""
    K = lambda k: keyobj(keys, k)
    t = op['t']
    res = {'ok': True, 'exc': 'none', 'i': 0, 'm': [0] * NK}
    try:
        if t == 'set':
            a[K(op['k'])] = valobj(keys, op['v'])
        elif t == 'update':
            a.update({K(op['k']): valobj(keys, op['v']), K(op['k2']): valobj(keys, op['v2'])})
        elif t == 'dump':
            a.dump()                       # `a` is a cache front holding the two entries
        elif t == 'del':
            del a[K(op['k'])]
        elif t == 'pop':
            res['i'] = valid(keys, a.pop(K(op['k'])))
        elif t == 'clear':
            a.clear()
        elif t == 'setdefault':
            res['i'] = valid(keys, a.setdefault(K(op['k']), valobj(keys, op['v'])))
        elif t == 'popkeys':
            a.popkeys([K(op['k']), K(op['k2'])])
        elif t == 'popitem':
            a.popitem()
        elif t == 'open':
            front_open(klepto, backend, w, cached=False)
        elif t == 'get':
            res['i'] = valid(keys, a[K(op['k'])])
        elif t == 'contains':
            res['i'] = 1 if K(op['k']) in a else 0
        elif t == 'len':
            res['i'] = len(a)
        elif t == 'keys':
            ks = list(a.keys())
            ids = [keyid(keys, k) for k in ks]
            res['m'] = [1 if k in ids else 0 for k in range(1, NK + 1)]
            res['i'] = -7 if any(i < 0 for i in ids) else 0
        elif t == 'items':
            res['m'], res['i'] = project(keys, dict(a.items()))
        elif t == 'load':
            c = klepto._archives.cache(archive=a)
            c.load()
            res['m'], res['i'] = project(keys, dict(dict.items(c)))
        else:
            raise RuntimeError('unknown op %r' % t)
    except RuntimeError:
        raise
    except BaseException as ex:
        if isinstance(ex, (KeyboardInterrupt, SystemExit)):
            raise
        res = {'ok': False, 'exc': type(ex).__name__, 'i': 0, 'm': [0] * NK, 'msg': str(ex)[:160]}
    if not isinstance(res['i'], int) or isinstance(res['i'], bool):
        res['i'] = -8
    return res


def view(klepto, backend, w, keys):
    v = {'lenok': True, 'len': 0, 'keysok': True, 'keys': [], 'itemsok': True, 'items': [0] * NK, 'loadok': True, 'load': [0] * NK,
         'errors': []}
    try:
        a = raw_open(klepto, backend, w)
    except Exception as ex:
        v.update(lenok=False, keysok=False, itemsok=False, loadok=False)
        v['errors'].append('open: %s: %s' % (type(ex).__name__, str(ex)[:120]))
        return v
    try:
        v['len'] = len(a)
    except Exception as ex:
        v['lenok'] = False
        v['errors'].append('len: %s: %s' % (type(ex).__name__, str(ex)[:120]))
    try:
        v['keys'] = sorted(keyid(keys, k) for k in list(a.keys()))
    except Exception as ex:
        v['keysok'] = False
        v['errors'].append('keys: %s: %s' % (type(ex).__name__, str(ex)[:120]))
    try:
        m, ph = project(keys, dict(a.items()))
        if ph:
            m[NK - 1] = -7
        v['items'] = m
    except Exception as ex:
        v['itemsok'] = False
        v['errors'].append('items: %s: %s' % (type(ex).__name__, str(ex)[:120]))
    try:
        c = front_open(klepto, backend, w, cached=True)
        c.load()
        m, ph = project(keys, dict(dict.items(c)))
        if ph:
            m[NK - 1] = -7
        v['load'] = m
    except Exception as ex:
        v['loadok'] = False
        v['errors'].append('load: %s: %s' % (type(ex).__name__, str(ex)[:120]))
    return v


# ---------------------------------------------------------------------------------------------
# scheduling points (C14): the worker stops before every file-system call of the archive and waits
# ---------------------------------------------------------------------------------------------

def install_stepping(root, inp=None, out=None):
    """before every file-system call on the archive the worker prints 'AT <label>' and waits for a line on stdin.
    Calls seen through audit events: open, os.mkdir, os.rename, os.remove, os.rmdir, os.scandir / os.listdir.
    Not audited, so wrapped here: the first write() and the close() of a file opened for writing, os.path.exists."""
    import builtins
    import io
    out = out or sys.__stdout__
    inp = inp or sys.stdin
    root = os.path.realpath(root)
    busy = [False]

    def at(label):
        if busy[0]:
            return
        busy[0] = True
        try:
            out.write('AT %s\n' % label)
            out.flush()
            inp.readline()
        finally:
            busy[0] = False

    def mine(path):
        try:
            if isinstance(path, bytes):
                path = path.decode()
            if not isinstance(path, str):
                return False
            return os.path.realpath(path).startswith(root) or path.startswith(root)
        except Exception:
            return False

    def hook(event, args):
        if busy[0]:
            return
        if event == 'open':
            path, mode, flags = args
            if mine(path) and '__pycache__' not in str(path):
                if isinstance(flags, int) and flags & (os.O_WRONLY | os.O_RDWR | os.O_CREAT):
                    at('creat')
                else:
                    at('open')
        elif event == 'os.mkdir':
            if mine(args[0]):
                at('mkdir')
        elif event == 'os.rename':
            if mine(args[0]):
                at('rename-away' if '.I_' in str(args[1]) and '.I_' not in str(args[0]) else 'rename')
        elif event == 'os.remove':
            if mine(args[0]) or (len(args) > 1 and args[1] is not None):
                at('unlink')
        elif event == 'os.rmdir':
            if mine(args[0]) or (len(args) > 1 and args[1] is not None):
                at('rmdir-root' if os.path.realpath(str(args[0])) == root else 'rmdir')
        elif event in ('os.scandir', 'os.listdir'):
            if mine(args[0]):
                at('scandir-root' if os.path.realpath(str(args[0])) == root else 'scandir')
    sys.addaudithook(hook)

    real_open = builtins.open

    class Proxy(object):
        def __init__(self, f):
            self._f = f
            self._wrote = False

        def write(self, data):
            if not self._wrote:
                self._wrote = True
                at('write')
            return self._f.write(data)

        def close(self):
            if not self._f.closed:
                at('close')
            return self._f.close()

        def __enter__(self):
            return self

        def __exit__(self, *a):
            self.close()
            return False

        def __getattr__(self, name):
            return getattr(self._f, name)

        def __iter__(self):
            return iter(self._f)

    def open_(file, mode='r', *a, **k):
        f = real_open(file, mode, *a, **k)
        if mine(file) and any(c in mode for c in 'wax+'):
            return Proxy(f)
        return f
    builtins.open = open_
    io.open = open_
    real_exists = os.path.exists

    def exists(path):
        if mine(path):
            at('stat')
        return real_exists(path)
    os.path.exists = exists


class StepCursor(object):
    """sqlite: a scheduling point before every statement; a data-changing statement and its commit are one step
    (the controller never parks a process inside a transaction, so it cannot itself cause 'database is locked')"""
    def __init__(self, cur, at):
        self._c, self._at = cur, at

    def execute(self, sql, *a):
        self._at('exec-' + sql.split()[0].lower())
        return self._c.execute(sql, *a)

    def __getattr__(self, name):
        return getattr(self._c, name)


def install_sql_stepping(a, inp=None, out=None):
    out, inp = out or sys.__stdout__, inp or sys.stdin

    def at(label):
        out.write('AT %s\n' % label)
        out.flush()
        inp.readline()
    a._engine = StepCursor(a._engine, at)


def forkstep(klepto, backend, w, keys, spec):
    """ONE archive object, created here, then used by forked children (what multiprocessing's fork start method does with
    a module-level archive or memoized function): child i talks to the controller through the FIFOs <w>/.ctl/in<i>, out<i>"""
    a = raw_open(klepto, backend, w)
    for k, v in enumerate(spec['init'], 1):
        if v:
            a[keyobj(keys, k)] = v
    ctl = os.path.join(w, '.ctl')
    pids = []
    for i, op in enumerate(spec['ops'], 1):
        pid = os.fork()
        if pid == 0:
            inp = open(os.path.join(ctl, 'in%d' % i), 'r')
            out = open(os.path.join(ctl, 'out%d' % i), 'w')
            try:
                install_stepping(w, inp, out)
                out.write('ready\n')
                out.flush()
                inp.readline()
                res = do_op(klepto, backend, w, keys, a, op)
                out.write('RES ' + json.dumps(res) + '\n')
                out.flush()
            finally:
                os._exit(0)
        pids.append(pid)
    sys.stdout.write('forked\n')
    sys.stdout.flush()
    for pid in pids:
        os.waitpid(pid, 0)


def main():
    repo, backend, w, role, arg = sys.argv[1:6]
    sys.path.insert(0, repo)
    import klepto
    assert os.path.realpath(klepto.__file__).startswith(os.path.realpath(repo)), klepto.__file__
    spec = json.loads(arg)
    keys = spec.get('keys', 'str')
    if role == 'view':
        sys.stdout.write(json.dumps(view(klepto, backend, w, keys)) + '\n')
        sys.stdout.flush()
        return
    if role == 'forkstep':
        return forkstep(klepto, backend, w, keys, spec)
    a = raw_open(klepto, backend, w)
    if spec.get('preclear') and not spec.get('noinit'):
        # the handle has a history: it stored something and cleared the archive before the contents were built
        a[keyobj(keys, 1)] = valobj(keys, 99)
        a.clear()
    if not spec.get('noinit'):
        for k, v in enumerate(spec['init'], 1):
            if v:
                if spec.get('history'):
                    a[keyobj(keys, k)] = valobj(keys, v + 5)
                a[keyobj(keys, k)] = valobj(keys, v)
    op = spec['op']
    if op['t'] == 'dump':
        c = klepto._archives.cache(archive=a)
        c[keyobj(keys, op['k'])] = valobj(keys, op['v'])
        c[keyobj(keys, op['k2'])] = valobj(keys, op['v2'])
        a = c
    if role == 'step':
        if spec.get('noinit'):
            pass
        if backend.startswith('sql'):
            install_sql_stepping(a.archive if op['t'] == 'dump' else a)
        else:
            install_stepping(w)
    sys.stdout.write('ready\n')
    sys.stdout.flush()
    sys.stdin.readline()
    if spec.get('rseed') is not None:
        # every process seeds the global random number generator with the same number just before its operation (what
        # reproducible scientific scripts do at their top): names the library makes up must still be its own
        import random
        random.seed(spec['rseed'])
    res = do_op(klepto, backend, w, keys, a, op)
    try:
        sys.stdout.write(('RES ' if role == 'step' else '') + json.dumps(res) + '\n')
        sys.stdout.flush()
        if role == 'step' and spec.get('linger'):
            sys.stdin.readline()          # idle, handle open, until the controller ends the run
    finally:
        os._exit(0)


if __name__ == '__main__':
    main()

"""Engine `round`: property C12 (rounding tolerance of cache keys; the standalone rounding decorators).

1. TLC checks layer I (specs/RoundImpl.tla: simple_round / deep_round / shallow_round transcribed) against the
   rounding oracle of layer P (specs/RoundP.tla: exact half-to-even rounding of dyadic rationals on argument
   trees) over a catalogue of argument structures; one more run per named deviation must find a counterexample.
2. TLC emits the catalogue (specs/RoundGen.tla); every call is built as a real Python value and pushed through
   real klepto caches (std / safe), klepto.keygen and the three standalone decorators.
3. TLC judges every recorded call against layer P (specs/RoundTrace.tla): merging, separation, hit/miss,
   what the function received, no failure caused by rounding.
"""
import json
import multiprocessing
import os
import random
import re
import time
from fractions import Fraction

from . import common
from . import key_driver as kd

NOTOL = 99
ALL_FLOATS = set(range(1, 17))
ALL_OTHERS = {21, 22, 23, 24, 25, 26, 27, 28, 29, 30}
ALL_SHAPES = set(range(1, 27))
ALIAS_SHAPES = {22, 23}        # calls that contain equal containers: also made with ONE shared object in their place
# per tolerance: floats that merge / tie at that tolerance, and a few non-floats (quick tier)
QUICK_ALPHA = {
    None: ({2, 3}, {21, 23}),
    -1: ({9, 10, 11, 12}, {22, 27, 23}),
    0: ({1, 2, 3, 13, 14}, {21, 23, 24, 28}),      # 28: a one-shot iterator
    1: ({4, 5, 6, 7, 15, 16}, {21, 23, 25, 29}),         # 29: a class object; 15, 16: negative values that round to -0.0
    2: ({4, 5, 7, 8}, {21, 26, 30}),              # 30: an object whose iter() raises ValueError
}
DEVIATIONS = {
    'deep_dict_nonstr_keys': dict(FloatIds={2, 3}, OtherIds=set(), ShapeIds={7, 11}, TolIds={10}),
    'shallow_str_listified': dict(FloatIds={2}, OtherIds={23, 26}, ShapeIds={1}, TolIds={10}),
    'iter_error_propagates': dict(FloatIds={2}, OtherIds={30}, ShapeIds={1, 2, 6}, TolIds={10}),
    'deep_mapping_from_keys': dict(FloatIds={2, 3}, OtherIds=set(), ShapeIds={24}, TolIds={10}),
    'shallow_dict_from_keys': dict(FloatIds={2}, OtherIds=set(), ShapeIds={25}, TolIds={10}),
    'deep_rebuild_raises': dict(FloatIds={2, 3}, OtherIds=set(), ShapeIds={17, 18, 20}, TolIds={10}),
}
STR = {100: 'a', 101: 'b', 105: 'ab'}
RSTR = {v: k for k, v in STR.items()}
TOP_DICT_SHAPES = set()      # (dict arguments are given to shallow_round as well: it must leave them alone)
RECV = []
ALGS = ['inf', 'lru', 'lfu', 'mru', 'rr', 'no']
import collections
NT = collections.namedtuple('NT', ['p', 'q'])


class BadIter(object):
    """behaves like a closed file: iter() raises ValueError (not TypeError); equal, hashable, printable and picklable"""
    def __iter__(self):
        raise ValueError('I/O operation on closed file.')

    def __eq__(self, other):
        return type(other) is BadIter

    def __ne__(self, other):
        return type(other) is not BadIter

    def __hash__(self):
        return 77

    def __repr__(self):
        return 'BadIter()'

    def __reduce__(self):
        return (BadIter, ())


def cfg_text(consts, spec, invariants=()):
    lines = ['SPECIFICATION %s' % spec, 'CONSTANTS']
    for k, v in consts.items():
        lines.append('  %s = %s' % (k, '{}' if isinstance(v, (set, frozenset)) and not v else common.tla_value(v)))
    lines += ['INVARIANT %s' % i for i in invariants]
    lines.append('CHECK_DEADLOCK FALSE')
    return '\n'.join(lines) + '\n'


def _h(consts):
    return common.trace_hash(sorted((k, repr(sorted(v) if isinstance(v, (set, frozenset)) else v)) for k, v in consts.items()))


def tol_id(tol):
    return NOTOL if tol is None else tol + 10


def tlc_impl(consts, work, workers=4):
    p = os.path.join(work, 'impl-%s.cfg' % _h(consts))
    open(p, 'w').write(cfg_text(consts, 'Spec', ['ImplOK']))
    r = common.run_tlc('RoundImpl', p, workdir=work, workers=workers, timeout=2400, heap='6g')
    res = {'constants': {k: (sorted(v) if isinstance(v, (set, frozenset)) else v) for k, v in consts.items()},
           'generated': r.generated, 'distinct': r.distinct, 'wall': round(r.wall, 1), 'violated': r.violated}
    if r.violated:
        i = r.out.find('State 2')
        res['counterexample'] = re.sub(r'\s+', ' ', r.out[i:i + 700])
    elif not r.ok:
        raise common.MachineryError('RoundImpl run failed:\n%s' % r.out[-2500:])
    return res


def tlc_catalogue(consts, work):
    p = os.path.join(work, 'cat-%s.cfg' % _h(consts))
    open(p, 'w').write(cfg_text(consts, 'GSpec', ['Emit']))
    r = common.run_tlc('RoundGen', p, workdir=work, workers=1, timeout=900, heap='4g')
    groups = [json.loads(m.group(1).replace('\\"', '"')) for m in re.finditer(r'<<"GROUP", "(.*)">>', r.out)]
    if not groups:
        raise common.MachineryError('RoundGen produced no catalogue:\n%s' % r.out[-2000:])
    for g in groups:
        g['calls'] = sorted(g['calls'], key=lambda c: json.dumps(c, sort_keys=True))
    groups.sort(key=lambda g: g['sh'])
    return groups, r.distinct


# ---------------------------------------------------------------------------------------------
# trees <-> Python values
# ---------------------------------------------------------------------------------------------

def build(n, memo=None):
    """memo (a dict): equal container sub-trees of one call become one shared Python object"""
    if memo is not None and n['t'] in ('list', 'tuple', 'dict', 'set', 'fset'):
        k = json.dumps(n, sort_keys=True)
        if k not in memo:
            memo[k] = _build(n, memo)
        return memo[k]
    return _build(n, memo)


def _build(n, memo=None):
    t = n['t']
    if t == 'float':
        return n['v'] / n['d']            # dyadic: exact
    if t == 'int':
        return int(n['v'])
    if t == 'bool':
        return bool(n['v'])
    if t == 'str':
        return STR[n['v']]
    if t == 'none':
        return None
    if t == 'range':
        return range(n['v'])
    if t == 'iter':
        return iter([1.5, 2.5, 0.125][:n['v']])
    if t == 'cls':
        return int
    if t == 'badit':
        return BadIter()
    if t == 'ipnet':
        import ipaddress
        return ipaddress.ip_network('10.0.0.0/%d' % n['v'])
    kids = [build(c, memo) for c in n['c']] if t not in ('dict', 'cmap') else None
    if t == 'ntuple':
        return NT(*kids)
    if t == 'list':
        return kids
    if t == 'tuple':
        return tuple(kids)
    if t == 'set':
        return set(kids)
    if t == 'fset':
        return frozenset(kids)
    if t in ('dict', 'cmap'):
        d = {}
        for it in n['c']:
            k = STR[it['v']] if it['d'] == 1 else int(it['v'])
            d[k] = build(it['c'][0], memo)
        if t == 'dict' and n.get('v') == 1:
            return collections.defaultdict(float, d)
        return collections.ChainMap(d) if t == 'cmap' else d
    raise ValueError(n)


def leaf(t, v, d=1):
    return {'t': t, 'v': v, 'd': d, 'c': []}


def describe(x):
    if isinstance(x, bool):
        return leaf('bool', int(x))
    if isinstance(x, int):
        return leaf('int', x) if abs(x) < 2 ** 30 else leaf('other', 1)
    if isinstance(x, float):
        if x != x or x in (float('inf'), float('-inf')):
            return leaf('other', 2)
        if x == int(x) and abs(x) < 2 ** 30:
            return leaf('float', int(x))
        n, d = x.as_integer_ratio()
        if d <= 2 ** 20 and abs(n) < 2 ** 30:
            return leaf('float', n, d)
        for p in range(1, 7):
            m = round(x * 10 ** p)
            if m / 10 ** p == x and abs(m) < 2 ** 30:
                return leaf('float', m, 10 ** p)
        return leaf('other', 3)
    if isinstance(x, str):
        return leaf('str', RSTR.get(x, 998))
    if x is None:
        return leaf('none', 0)
    if type(x).__name__ == 'IPv4Network':
        return leaf('ipnet', x.prefixlen) if str(x.network_address) == '10.0.0.0' else leaf('other', 5)
    if type(x).__name__ == 'list_iterator':
        return leaf('iter', x.__length_hint__())     # (what is left in it; looking does not consume it)
    if x is int:
        return leaf('cls', 1)
    if type(x) is BadIter:
        return leaf('badit', 1)
    if type(x) is range:
        return leaf('range', len(x)) if x == range(len(x)) else leaf('other', 4)
    if type(x) is NT:
        return {'t': 'ntuple', 'v': 0, 'd': 1, 'c': [describe(c) for c in x]}
    if type(x) in (list, tuple):
        return {'t': 'list' if type(x) is list else 'tuple', 'v': 0, 'd': 1, 'c': [describe(c) for c in x]}
    if type(x) in (set, frozenset):
        kids = sorted((describe(c) for c in x), key=lambda n: json.dumps(n, sort_keys=True))
        return {'t': 'set' if type(x) is set else 'fset', 'v': 0, 'd': 1, 'c': kids}
    if type(x) is collections.ChainMap:
        if len(x.maps) != 1 or type(x.maps[0]) is not dict:
            return leaf('other', 6)
        n = describe(x.maps[0])
        n['t'] = 'cmap'
        return n
    if type(x) in (dict, collections.defaultdict):
        items = []
        for k, v in x.items():
            if isinstance(k, str) and k in RSTR:
                items.append({'t': 'item', 'v': RSTR[k], 'd': 1, 'c': [describe(v)]})
            elif isinstance(k, int) and not isinstance(k, bool):
                items.append({'t': 'item', 'v': k, 'd': 2, 'c': [describe(v)]})
            else:
                items.append({'t': 'item', 'v': 997, 'd': 3, 'c': [describe(v)]})
        return {'t': 'dict', 'v': 1 if type(x) is collections.defaultdict else 0, 'd': 1, 'c': items}
    return leaf('other', 0)


def stub(x, y=0):
    RECV.append([describe(x), describe(y)])
    return 7


def stub2(x, y=0, tol=7, deep=0):
    """a function whose own parameters are called like the rounders' options"""
    RECV.append([describe(x), describe(y)])
    return 7


OMIT_DEFAULT = {-1: 15.0, 0: 1.5, 1: 0.125, 2: 0.125, 3: 0.125, None: 0.125}     # per tolerance: a default the rounding changes
_STUBS_D = {}


def stub_with_default(d):
    """def stub_d(x, y=<d>): the float default is OMITTED by the caller whenever y has that value (form 'omit')"""
    if d not in _STUBS_D:
        def stub_d(x, y=d):
            RECV.append([describe(x), describe(y)])
            return 7
        _STUBS_D[d] = stub_d
    return _STUBS_D[d]


def make_keymap(klepto, enc):
    K = klepto.keymaps
    if enc == 'raw':
        return K.keymap()
    if enc == 'str':
        return K.stringmap()
    if enc == 'pickle':
        return K.picklemap()
    return K.hashmap(algorithm='md5')


def spell(form, x, y, default=None):
    if form == 'omit':          # y is left out when it equals the function's default
        if type(y) is float and y == default:
            return (x,), {}
        return (x,), {'y': y}
    if form == 'pos':
        return (x, y), {}
    if form == 'kw':
        return (x,), {'y': y}
    if form == 'kwnames':       # keyword arguments named like the rounding options (passed to stub2)
        return (x,), {'y': y, 'tol': 7, 'deep': 0}
    return (), {'x': x, 'y': y}


def run_cached(klepto, group, cfg):
    """cfg: tol, deep, enc, mode ('std'/'safe'/'keygen'), form"""
    dflt = OMIT_DEFAULT.get(cfg['tol'], 0.125)
    target = stub2 if cfg['form'] == 'kwnames' else stub_with_default(dflt) if cfg['form'] == 'omit' else stub

    def mk(tol):
        km = make_keymap(klepto, cfg['enc'])
        if cfg['mode'] == 'keygen':
            return klepto.keygen(keymap=km, tol=tol, deep=cfg['deep'])(target)
        mod = klepto.safe if cfg['mode'] == 'safe' else klepto
        alg = cfg.get('alg', 'inf')
        if alg == 'inf':
            return mod.inf_cache(keymap=km, tol=tol, deep=cfg['deep'])(target)
        if alg == 'no':      # no_cache keeps nothing in memory: give it an archive so that a repeated key is a load
            return mod.no_cache(cache=klepto.archives.dict_archive('round', cached=True), keymap=km, tol=tol, deep=cfg['deep'])(target)
        # (a bounded decorator asked for maxsize=None hands over to inf_cache: every setting must survive that)
        return getattr(mod, alg + '_cache')(maxsize=cfg.get('maxsize', 100000), keymap=km, tol=tol, deep=cfg['deep'])(target)
    f = mk(cfg['tol'])
    base = mk(None)
    cached = cfg['mode'] != 'keygen'
    classes = kd.Classes()
    fresh = [-1]
    events = []
    calls = [(c, False, cfg['form']) for c in group['calls']]
    if cfg.get('alias'):
        # every call twice: first with its equal containers being one shared object, then with separate equal objects
        calls = [(c, al, cfg['form']) for c in group['calls'] for al in (True, False)]
    if cfg['form'] == 'mix':
        # every call in its three spellings, one after the other: the spelling must not matter to the rounding
        calls = [(c, False, fm) for c in group['calls'] for fm in ('pos', 'allkw', 'kw')]
    persistent = {}

    def reuse(pos, x):
        """cfg['inplace']: the caller keeps ONE list / dict / set object per argument position and updates it in place from call
        to call (an optimiser's parameter vector): each call must be keyed by what the container holds at that moment"""
        if not cfg.get('inplace') or type(x) not in (list, dict, set):
            return x
        p = persistent.get((pos, type(x)))
        if p is None:
            persistent[(pos, type(x))] = x
            return x
        if type(x) is list:
            p[:] = x
        else:
            p.clear()
            p.update(x)
        return p
    for c, aliased, form in calls:
        def args_of():
            memo = {} if aliased else None
            a_, k_ = spell(form, build(c[0], memo), build(c[1], memo), dflt)
            return tuple(reuse(('p', n), v) for n, v in enumerate(a_)), dict((n, reuse(('k', n), v)) for n, v in k_.items())
        e = {'call': c, 'exc': 'none', 'kind': 'none', 'evals': 0, 'kc': -1, 'base': 'none', 'recv': [], 'form': form}
        # the same call without rounding: is it a valid call for this configuration at all?
        a, k = args_of()
        try:
            base(*a, **k)
        except Exception as ex:
            e['base'] = type(ex).__name__
        a, k = args_of()
        del RECV[:]
        if cached:
            i0 = f.info()
            try:
                f(*a, **k)
            except Exception as ex:
                e['exc'] = 'call:' + type(ex).__name__
            i1 = f.info()
            e['evals'] = len(RECV)
            e['recv'] = RECV[0] if RECV else []
            e['kind'] = 'hit' if i1.hit > i0.hit else 'load' if i1.load > i0.load else 'miss' if i1.miss > i0.miss else 'none'
            keyfn = f.key
        else:
            keyfn = f
        a, k = args_of()
        try:
            e['kc'] = classes.cls(keyfn(*a, **k))
            if not cached:
                f.call()                 # the function itself, with the most recently provided arguments
                e['evals'] = len(RECV)
                e['recv'] = RECV[0] if RECV else []
        except Exception as ex:
            if e['exc'] == 'none' and not cached:
                e['exc'] = 'key:' + type(ex).__name__
            fresh[0] -= 1
            e['kc'] = fresh[0]          # no key: a class of its own
        events.append(e)
    mode = 'deep' if cfg['deep'] else 'top'
    return {'cfg': {'tol': NOTOL if cfg['tol'] is None else cfg['tol'], 'mode': mode, 'km': {'enc': cfg['enc']},
                    'cached': cached, 'standalone': False},
            'events': events, 'meta': dict(cfg, sh=group['sh'])}


def run_standalone(klepto, group, cfg):
    """cfg: tol, which ('simple'/'shallow'/'deep'), form"""
    R = klepto.rounding
    dec = {'simple': R.simple_round, 'shallow': R.shallow_round, 'deep': R.deep_round}[cfg['which']]
    f = dec(tol=cfg['tol'])(stub2 if cfg['form'] == 'kwnames' else stub)
    events = []
    for c in group['calls']:
        memo = {} if cfg.get('alias') else None
        a, k = spell(cfg['form'], build(c[0], memo), build(c[1], memo))
        e = {'call': c, 'exc': 'none', 'recv': []}
        del RECV[:]
        try:
            f(*a, **k)
        except Exception as ex:
            e['exc'] = type(ex).__name__
        e['recv'] = RECV[0] if RECV else []
        events.append(e)
    mode = {'simple': 'top', 'shallow': 'shallow', 'deep': 'deep'}[cfg['which']]
    return {'cfg': {'tol': NOTOL if cfg['tol'] is None else cfg['tol'], 'mode': mode, 'km': {'enc': 'raw'},
                    'cached': False, 'standalone': True},
            'events': events, 'meta': dict(cfg, sh=group['sh'])}


def _run_job(job):
    group, cfg = job
    klepto = common.import_klepto()
    if 'which' in cfg:
        return run_standalone(klepto, group, cfg)
    return run_cached(klepto, group, cfg)


def signature(t, v):
    e = t['events'][v[0] - 1]
    m = t['meta']

    def kinds(n, acc):
        acc.add(n['t'] + ('-intkey' if n['t'] == 'item' and n['d'] == 2 else ''))
        for c in n['c']:
            kinds(c, acc)
        return acc
    ks = set()
    for n in e['call']:
        kinds(n, ks)
    return {'engine': 'round', 'clauses': v[1], 'alg': m.get('alg'), 'tol': m['tol'], 'deep': m.get('deep'), 'which': m.get('which'),
            'mode': m.get('mode'), 'enc': m.get('enc'), 'form': m['form'], 'shape': m['sh'], 'exc': e['exc'],
            'dict_int_keys': 'item-intkey' in ks, 'has_str': 'str' in ks, 'has_set': bool(ks & {'set', 'fset'})}


def main(pid, tier):
    assert pid == 'C12'
    rep = common.Report(pid, tier)
    thorough = tier == 'thorough'
    work = common.scratch('round')
    rng = random.Random(common.seed() + 12)
    tols = [None, -1, 0, 1, 2]
    mcs = []
    full = dict(FloatIds=ALL_FLOATS, OtherIds=ALL_OTHERS if thorough else {21, 23, 24, 25, 26}, ShapeIds=ALL_SHAPES,
                TolIds={tol_id(t) for t in tols} | ({13} if thorough else set()), Deviations=set())
    full['OtherIds'] = set(full['OtherIds']) | {28, 29}
    from concurrent.futures import ThreadPoolExecutor
    shapes = sorted(ALL_SHAPES)
    with ThreadPoolExecutor(max_workers=4) as ex:
        for r in ex.map(lambda ch: tlc_impl(dict(full, ShapeIds=set(ch)), work), [shapes[i::4] for i in range(4)]):
            mcs.append(r)
            if r['violated']:
                rep.note_drift('layer I counterexample with no deviation enabled: %s' % r['counterexample'][:500])
    devs = {}
    for d, over in sorted(DEVIATIONS.items()):
        r = tlc_impl(dict(over, Deviations={d}), work, workers=2)
        mcs.append(r)
        devs[d] = {'counterexample_found': r['violated']}
        if not r['violated']:
            rep.notes.append('deviation %s: no counterexample (model insensitive?)' % d)
    # catalogue per tolerance (the leaf alphabet is chosen so that merges, ties and separations occur at that tolerance)
    jobs = []
    cat_states = 0
    ngroups = 0
    for tol in tols:
        fl, ot = QUICK_ALPHA[tol]
        if thorough:
            # the tolerance's own alphabet plus a rotating sample of the other leaves (negative values would round
            # to -0.0 at tol=-1 and are left out there)
            more = sorted(ALL_FLOATS - fl - ({13, 14} if tol == -1 else set()) - ({15, 16} if tol not in (1, 2) else set()))
            rng.shuffle(more)
            fl = set(fl) | set(more[:3])
            ot = set(ot) | set(rng.sample(sorted(ALL_OTHERS - ot), 2))
        groups, st = tlc_catalogue(dict(FloatIds=fl, OtherIds=ot, ShapeIds=ALL_SHAPES, TolIds={tol_id(tol)}, Deviations=set()), work)
        cat_states += st
        ngroups += len(groups)
        for g in groups:
            n = 0
            for deep in (False, True):
                for enc in ('raw', 'str', 'pickle', 'hash'):
                    for mode in ('keygen', 'std', 'safe'):
                        if mode == 'safe' and enc == 'raw':
                            continue          # unhashable raw keys: the safe fallback never stores (C16's business)
                        forms = ['pos', 'kw', 'allkw']
                        n += 1
                        if not thorough:
                            forms = [forms[(n + g['sh']) % 3]]
                            if (n + g['sh'] + (tol or 0)) % 2 and not (enc == 'str' and mode == 'std'):
                                continue
                        for form in forms:
                            if mode == 'keygen':
                                algs = [None]
                            elif thorough:
                                algs = ALGS if form == 'pos' else [ALGS[(n + g['sh'] + len(jobs)) % len(ALGS)]]
                            else:
                                algs = [ALGS[(n + g['sh'] + len(jobs)) % len(ALGS)]]
                            for alg in algs:
                                c = dict(tol=tol, deep=deep, enc=enc, mode=mode, form=form)
                                if g['sh'] in ALIAS_SHAPES:
                                    c['alias'] = True
                                if alg:
                                    c['alg'] = alg
                                    if alg in ('lru', 'lfu', 'mru', 'rr') and (len(jobs) + g['sh']) % 2:
                                        c['maxsize'] = None
                                jobs.append((g, c))
            if g['sh'] == 1:
                # spelling probes: top-level floats passed by keyword only / positionally, through every decorator class
                for alg in ALGS:
                    for mode in ('std', 'safe'):
                        for form in ('allkw', 'kw', 'pos', 'kwnames', 'omit') if thorough else (('allkw', 'kw', 'kwnames', 'omit') if mode == 'std' else ('allkw', 'kwnames')):
                            for deep in ((False, True) if thorough else (False,)):
                                jobs.append((g, dict(tol=tol, deep=deep, enc='str', mode=mode, form=form, alg=alg)))
            if g['sh'] in (2, 4, 6, 8, 10, 13, 14):
                # the caller re-uses one container object per argument position and updates it in place between the calls
                for deep in (False, True):
                    for enc, mode in (('str', 'keygen'), ('pickle', 'std')) if not thorough else (('str', 'keygen'), ('pickle', 'std'), ('hash', 'safe'), ('raw', 'keygen')):
                        if mode == 'safe' and enc == 'raw':
                            continue
                        jobs.append((g, dict(tol=tol, deep=deep, enc=enc, mode=mode, form=['pos', 'kw', 'allkw'][len(jobs) % 3], inplace=True,
                                             **({} if mode == 'keygen' else {'alg': ALGS[len(jobs) % len(ALGS)]}))))
            if g['sh'] == 1:
                # every call in all its spellings within one history (shallow and deep rounding, textual and pickled keys)
                for deep in (False, True):
                    for enc in ('str', 'pickle', 'hash') if thorough else ('str', 'pickle'):
                        for mode in ('keygen', 'std', 'safe') if thorough else ('keygen', ['std', 'safe'][len(jobs) % 2]):
                            jobs.append((g, dict(tol=tol, deep=deep, enc=enc, mode=mode, form='mix',
                                                 **({} if mode == 'keygen' else {'alg': ALGS[len(jobs) % len(ALGS)]}))))
            for which in ('simple', 'shallow', 'deep'):
                if which == 'shallow' and g['sh'] in TOP_DICT_SHAPES:
                    continue
                for form in (['pos', 'kw'] if thorough else [['pos', 'kw'][(g['sh'] + len(which)) % 2]]):
                    jobs.append((g, dict(tol=tol, which=which, form=form)))
                    if g['sh'] == 1:
                        jobs.append((g, dict(tol=tol, which=which, form='kwnames')))
                    if g['sh'] in ALIAS_SHAPES:
                        jobs.append((g, dict(tol=tol, which=which, form=form, alias=True)))
    t0 = time.time()
    ctx = multiprocessing.get_context('fork')
    with ctx.Pool(common.NCPU) as pool:
        traces = pool.map(_run_job, jobs, chunksize=4)
    t_real = time.time() - t0
    strip = [{'cfg': t['cfg'], 'events': t['events']} for t in traces]
    verdicts, st = common.validate_traces('RoundTrace', strip, [pid], per_slice=40)
    # a rejected trace stops at the failing call: re-judge the rest without it so later calls get verdicts too
    pending = [(t, v) for t, v in zip(traces, verdicts) if v is not None]
    nrej = 0
    rounds = 0
    while pending and rounds < 6:
        rounds += 1
        for t, v in pending:
            nrej += 1
            e = t['events'][v[0] - 1]
            rep.reject(signature(t, v), {'config': t['meta'], 'call': e['call'],
                                         'python_call': repr(spell(e.get('form', t['meta']['form']), build(e['call'][0]), build(e['call'][1]), OMIT_DEFAULT.get(t['meta'].get('tol'), 0.125))),
                                         'event': e, 'clauses': v[1],
                                         'earlier_calls': [x['call'] for x in t['events'][:v[0] - 1]][-30:]})
        nxt = [dict(t, events=t['events'][:v[0] - 1] + t['events'][v[0]:]) for t, v in pending if len(t['events']) > v[0]]
        if not nxt:
            break
        vs, st2 = common.validate_traces('RoundTrace', [{'cfg': t['cfg'], 'events': t['events']} for t in nxt], [pid], per_slice=40)
        st['states'] += st2['states']
        pending = [(t, v) for t, v in zip(nxt, vs) if v is not None]
    ncalls = sum(len(t['events']) for t in traces)
    merges = sum(1 for t in traces if not t['cfg']['standalone'] for e in t['events'] if e['kind'] == 'hit')
    distinct = len({common.trace_hash([t['cfg'], t['meta']['form'], t['meta']['sh']]) for t in traces})
    s0 = next((t for t in traces if t['cfg']['mode'] == 'deep' and not t['cfg']['standalone'] and t['meta']['sh'] == 8), traces[0])
    sample = {'config': s0['meta'],
              'calls': [{'python': repr(spell(s0['meta']['form'], build(e['call'][0]), build(e['call'][1]))),
                         'kc': e.get('kc'), 'kind': e.get('kind'), 'exc': e['exc']} for e in s0['events'][:6]]}
    cov = {'states': sum(m['distinct'] for m in mcs) + cat_states + st['states'],
           'transitions': sum(m['generated'] for m in mcs) + ncalls,
           'traces_validated_against_impl': len(traces), 'samples': [sample],
           'evaluations': ncalls, 'distinct_nontrivial': distinct,
           'rule': 'one trace = one decorated function (tolerance x deep x keymap x std/safe/keygen, or one standalone rounding '
                   'decorator) receiving every call of one catalogue shape; one evaluation = one call; every call is compared '
                   'with all earlier calls of its trace; distinct_nontrivial = distinct (configuration, spelling, shape) traces',
           'exhaustive': True, 'cached_hits_by_merging': merges, 'groups': ngroups,
           'named_deviations': devs,
           'model_checking': {'layer_I_runs': mcs},
           'trace_validation': {'traces': len(traces), 'events': ncalls, 'rejected': nrej, 'wall_s': round(st['wall'], 1),
                                'real_wall_s': round(t_real, 1)}}
    return rep.finish('model_checking', cov, [
        'float leaves are dyadic rationals (0.5, 1.5, 2.5, 0.125, 0.0625, 0.25, 0.15625, 0.1171875, 12.0, 15.0, 25.0, 17.5, '
        '-2.5, -1.5), so exact half-to-even rounding is what a correctly rounded round() returns; values that would round to '
        '-0.0 are generated only at tolerances where no other leaf rounds to +0.0 (whether -0.0 and 0.0 share a key depends on the encoder, and the statement does not say; that the SAME negative value spelled positionally and by keyword shares a key it does say)',
        'argument structures: 16 shapes (scalars, list, tuple, set, frozenset, dict with str keys, dict with int keys, nesting '
        'to depth 3, positional and keyword position) x two leaves; float dict KEYS are not generated',
        'merging of arguments that contain sets is only demanded under the raw keymap (textual/pickled forms of a set depend '
        'on iteration order); dict arguments are not given to shallow_round (its documentation does not say whether values round)',
        'tolerances None, -1, 0, 1, 2 (3 in the thorough layer-I run)'])


def replay(pid, path):
    case = json.load(open(path))['case']
    klepto = common.import_klepto()
    cfg = case['config']
    calls = list(case.get('earlier_calls', [])) + [case['call']]
    t = _run_job(({'sh': cfg.get('sh', 0), 'calls': calls}, {k: v for k, v in cfg.items() if k != 'sh'}))
    verdicts, _ = common.validate_traces('RoundTrace', [{'cfg': t['cfg'], 'events': t['events']}], [pid])
    if verdicts[0] is None:
        print('replay: accepted on the current tree')
        return common.EXIT_OK
    print('VIOLATION property=%s replay=%s' % (pid, path))
    print('  clauses: %s at call %d' % (verdicts[0][1], verdicts[0][0]))
    return common.EXIT_VIOLATION

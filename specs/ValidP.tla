------------------------------- MODULE ValidP -------------------------------
(***************************************************************************)
(* Layer P for klepto.validate / klepto.isvalid (property C19).            *)
(*                                                                         *)
(* The oracle is Python's own argument binding (KeyP.PyBind), extended to  *)
(* the kinds of callables the property quantifies over:                    *)
(*   kind "func"      a plain function with signature sig                  *)
(*   kind "method"    a bound method (sig = what the caller sees: the      *)
(*                    parameters after self)                               *)
(*   kind "callable"  an instance whose class defines __call__(self, ...)  *)
(*   partial = TRUE   functools.partial over one of the above, fixing pa   *)
(*                    positionals and the keywords pk (names)              *)
(* target = [sig, kind, partial, pa, pk]; a call = [np, k] (number of      *)
(* positionals, keyword names in call order) - values are irrelevant to    *)
(* validity and are all the same.                                          *)
(*                                                                         *)
(* A call of functools.partial(f, pargs.., pkw..) with (a.., kw..) reaches *)
(* f with the positionals pargs.. followed by a.. and with the keywords    *)
(* pkw overridden by kw.                                                   *)
(***************************************************************************)
EXTENDS KeyP

Dv == [t |-> "int", v |-> 1]
MkCall(np, names) == [p |-> [x \in 1..np |-> Dv],
                      k |-> [x \in 1..Len(names) |-> [n |-> names[x], v |-> Dv]]]

\* the call that reaches the underlying function
EffCall(t, c) ==
  IF t.partial
  THEN LET extra == SelectSeq(t.pk, LAMBDA n : n \notin ToSet(c.k))
       IN MkCall(t.pa + c.np, c.k \o extra)
  ELSE MkCall(c.np, c.k)

ValidCall(t, c) == PyBind(t.sig, EffCall(t, c)).ok

(***************************************************************************)
(* Judging one recorded case.                                              *)
(* e = [call |-> [np, k], isvalid : "True"/"False"/other,                  *)
(*      validate : "ok"/"TypeError"/other exception name,                  *)
(*      actual : "ok"/"TypeError"/other (really calling the stub),         *)
(*      evals : number of times the stub ran during isvalid + validate]    *)
(***************************************************************************)
VFailed(props0, t, e) ==
  LET props == props0 \cup {"ORACLE"}
      ok == ValidCall(t, e.call)
  IN   Chk(props, "ORACLE", "ORACLE.PyBind", (e.actual = "ok") = ok /\ e.actual \in {"ok", "TypeError"})
  \cup Chk(props, "C19", "C19.IsValidAcceptsValid", ok => e.isvalid = "True")
  \cup Chk(props, "C19", "C19.IsValidRejectsInvalid", ~ok => e.isvalid = "False")
  \cup Chk(props, "C19", "C19.ValidateSilentOnValid", ok => e.validate = "ok")
  \cup Chk(props, "C19", "C19.ValidateRaisesTypeError", ~ok => e.validate = "TypeError")
  \cup Chk(props, "C19", "C19.NeverCalls", e.evals = 0)
=============================================================================

------------------------------ MODULE DictImpl ------------------------------
(***************************************************************************)
(* Layer I for C03: the mapping protocol as klepto's archives implement it *)
(* on top of their storage, one action per public method.                  *)
(*                                                                         *)
(*  BACKEND = "dict"  dict_archive: the base dict                          *)
(*          = "null"  null_archive: writes are dropped                     *)
(*          = "file"  file_archive: every method reads the whole           *)
(*                    dictionary (__asdict__), edits it, writes it back    *)
(*                    (__save__)                                           *)
(*          = "dir"   dir_archive: one sub-directory per key, named by     *)
(*                    _fname(key) = str(key) with '-' -> '_' (FN below: key *)
(*                    id -> name id); _store replaces the directory,        *)
(*                    _lookup reads the directory of that NAME, _rmdir      *)
(*                    removes it ignoring errors, keys are read back from   *)
(*                    the directory (its stored input, or its name)         *)
(*          = "sql"   sqltable_archive (sqlite3 fallback): INSERT appends   *)
(*                    a row, reads take the last row of a key, DELETE       *)
(*                    removes every row of a key                            *)
(*                                                                         *)
(* Storage st[loc]: "dir": name id -> [k, v] ([k |-> 0] = no such           *)
(* directory); "sql": sequence of <<k, v>> rows; otherwise key id -> value. *)
(*                                                                         *)
(* Named deviations (behaviour of the pinned commit):                      *)
(*   "dir_del_missing_silent"  dir_archive.__delitem__ of a missing key     *)
(*                             did not raise KeyError                       *)
(*   "update_partial_on_failure"  update() of dir / sqlite archives stores  *)
(*                             item by item: a failing item leaves the     *)
(*                             earlier ones written                         *)
(*   FNID = 1 ("dir_fname_alias")  str(1) = str('1'), 'a-b' -> 'a_b':      *)
(*                             distinct keys share a directory              *)
(* Refinement: every step satisfies every clause of DictP (StepOK).        *)
(***************************************************************************)
EXTENDS DictP

CONSTANTS BACKEND, NK, NV, NL, FNID, DEPTH, OPS, Deviations

\* key id -> directory name id: 0 = injective; 1 = keys 1 and 2 share a name (str(1) = str('1'), 'a-b' -> 'a_b')
FN == IF FNID = 0 THEN [k \in 1..NK |-> k] ELSE [k \in 1..NK |-> IF k = 2 THEN 1 ELSE k]

VARIABLES st, ex, last, hist, n
vars == <<st, ex, last, hist, n>>
View == <<st, ex, n>>
Cfg == [null |-> BACKEND = "null"]

NoEnt == [k |-> 0, v |-> 0]
NN == NK                      \* as many directory names as keys
EmptySt == IF BACKEND = "dir" THEN [x \in 1..NN |-> NoEnt]
           ELSE IF BACKEND = "sql" THEN <<>> ELSE EmptyMap(NK)

(* the abstract contents of one location, as a fresh reader sees them *)
RECURSIVE LastVal(_, _)
LastVal(rows, k) == IF rows = <<>> THEN 0
                    ELSE IF rows[Len(rows)][1] = k THEN rows[Len(rows)][2] ELSE LastVal(SubSeq(rows, 1, Len(rows) - 1), k)
Abs(s) == IF BACKEND = "dir" THEN [k \in 1..NK |-> IF \E x \in 1..NN : s[x].k = k
                                                   THEN s[CHOOSE x \in 1..NN : s[x].k = k].v ELSE 0]
          ELSE IF BACKEND = "sql" THEN [k \in 1..NK |-> LastVal(s, k)]
          ELSE s
AbsAll == [l \in 1..NL |-> Abs(st[l])]
PState == [c |-> AbsAll, ex |-> ex]

(* storage primitives *)
Lookup(s, k) == IF BACKEND = "dir" THEN s[FN[k]].v             \* whatever sits in the directory of that name
                ELSE IF BACKEND = "sql" THEN LastVal(s, k) ELSE s[k]
Has(s, k)    == IF BACKEND = "dir" THEN s[FN[k]].k # 0 ELSE Lookup(s, k) # 0
Store(s, k, v) == IF BACKEND = "null" THEN s
                  ELSE IF BACKEND = "dir" THEN [s EXCEPT ![FN[k]] = [k |-> k, v |-> v]]
                  ELSE IF BACKEND = "sql" THEN Append(s, <<k, v>>)
                  ELSE [s EXCEPT ![k] = v]
Remove(s, k) == IF BACKEND = "dir" THEN [s EXCEPT ![FN[k]] = NoEnt]
                ELSE IF BACKEND = "sql" THEN SelectSeq(s, LAMBDA r : r[1] # k)
                ELSE [s EXCEPT ![k] = 0]
RECURSIVE RemoveAll(_, _)
RemoveAll(s, ks) == IF ks = <<>> THEN s ELSE RemoveAll(Remove(s, Head(ks)), Tail(ks))

Finish(e0, s2, l) ==
  LET st2 == [st EXCEPT ![l] = s2]
      c2  == [x \in 1..NL |-> Abs(st2[x])]
      e   == e0 @@ [loc |-> l, c |-> c2, n |-> [x \in 1..NL |-> Cardinality(Dom(c2[x]))],
                    kk |-> [x \in 1..NL |-> SortedSeq(Dom(c2[x]))], usable |-> TRUE, cf |-> c2,
                    k |-> 1, v |-> 0, k2 |-> 1, v2 |-> 0, d |-> 0, ks |-> <<>>, o |-> 1, ri |-> 0, rs |-> <<>>, exc |-> "none"]
  IN /\ st' = st2 /\ last' = e /\ hist' = Append(hist, e0 @@ [loc |-> l]) /\ n' = n + 1

KE == [exc |-> "KeyError"]
Set(l, k, v) == /\ UNCHANGED ex /\ Finish([op |-> "set", k |-> k, v |-> v], Store(st[l], k, v), l)
Get(l, k) == /\ UNCHANGED ex
             /\ IF Has(st[l], k) THEN Finish([op |-> "get", k |-> k, ri |-> Lookup(st[l], k)], st[l], l)
                ELSE Finish([op |-> "get", k |-> k] @@ KE, st[l], l)
GetD(l, k, d) == /\ UNCHANGED ex
                 /\ Finish([op |-> "getd", k |-> k, d |-> d, ri |-> IF Has(st[l], k) THEN Lookup(st[l], k) ELSE d], st[l], l)
Del(l, k) == /\ UNCHANGED ex
             /\ IF Has(st[l], k) \/ (BACKEND = "dir" /\ "dir_del_missing_silent" \in Deviations)
                THEN Finish([op |-> "del", k |-> k], Remove(st[l], k), l)
                ELSE Finish([op |-> "del", k |-> k] @@ KE, st[l], l)
Contains(l, k) == /\ UNCHANGED ex /\ Finish([op |-> "contains", k |-> k, ri |-> IF Has(st[l], k) THEN 1 ELSE 0], st[l], l)
LenOp(l) == /\ UNCHANGED ex /\ Finish([op |-> "len", ri |-> Cardinality(Dom(Abs(st[l])))], st[l], l)
Keys(l, which) == /\ UNCHANGED ex
                  /\ Finish([op |-> which, rs |-> CASE which = "values" -> Sort(ValuesFrom(Abs(st[l]), 1))
                                                    [] which = "items" -> ItemsFrom(Abs(st[l]), 1)
                                                    [] OTHER -> SortedSeq(Dom(Abs(st[l])))], st[l], l)
Pop(l, k) == /\ UNCHANGED ex
             /\ IF Has(st[l], k) THEN Finish([op |-> "pop", k |-> k, ri |-> Lookup(st[l], k)], Remove(st[l], k), l)
                ELSE Finish([op |-> "pop", k |-> k] @@ KE, st[l], l)
PopD(l, k, d) == /\ UNCHANGED ex
                 /\ IF Has(st[l], k) THEN Finish([op |-> "popd", k |-> k, d |-> d, ri |-> Lookup(st[l], k)], Remove(st[l], k), l)
                    ELSE Finish([op |-> "popd", k |-> k, d |-> d, ri |-> d], st[l], l)
PopItem(l) == /\ UNCHANGED ex
              /\ IF Dom(Abs(st[l])) = {} THEN Finish([op |-> "popitem"] @@ KE, st[l], l)
                 ELSE \E k \in Dom(Abs(st[l])) :      \* the first key of the archive's own iteration order
                        Finish([op |-> "popitem", rs |-> <<k, Lookup(st[l], k)>>], Remove(st[l], k), l)
PopKeys(l, ks) == /\ UNCHANGED ex
                  /\ IF (\A x \in ToSet(ks) : Abs(st[l])[x] # 0) /\ NoDup(ks)   \* the 'shadow' dict raises before anything is popped
                     THEN Finish([op |-> "popkeys", ks |-> ks, rs |-> [x \in 1..Len(ks) |-> Lookup(st[l], ks[x])]], RemoveAll(st[l], ks), l)
                     ELSE Finish([op |-> "popkeys", ks |-> ks] @@ KE, st[l], l)
PopKeysD(l, ks, d) == /\ UNCHANGED ex
                      /\ Finish([op |-> "popkeysd", ks |-> ks, d |-> d,
                                 rs |-> [x \in 1..Len(ks) |-> IF Has(st[l], ks[x]) /\ FirstOcc(ks, x) THEN Lookup(st[l], ks[x]) ELSE d]], RemoveAll(st[l], ks), l)
SetDefault(l, k, v) == /\ UNCHANGED ex
                       /\ IF Has(st[l], k)     \* dir/file re-store the value they found; sql leaves the rows alone
                          THEN Finish([op |-> "setdefault", k |-> k, v |-> v, ri |-> Lookup(st[l], k)],
                                      IF BACKEND \in {"dir", "file"} THEN Store(st[l], k, Lookup(st[l], k)) ELSE st[l], l)
                          ELSE Finish([op |-> "setdefault", k |-> k, v |-> v, ri |-> v], Store(st[l], k, v), l)
Update(l, k, v, k2, v2) == /\ UNCHANGED ex
                           /\ Finish([op |-> "update", k |-> k, v |-> v, k2 |-> k2, v2 |-> v2], Store(Store(st[l], k, v), k2, v2), l)
\* a value the encoding cannot store: the plain dict keeps it (a dict accepts anything), the null archive drops it,
\* every stored archive fails - and a failing operation changes nothing
SetBad(l, k) == /\ UNCHANGED ex
                /\ IF BACKEND = "dict" THEN Finish([op |-> "setbad", k |-> k], Store(st[l], k, BAD), l)
                   ELSE IF BACKEND = "null" THEN Finish([op |-> "setbad", k |-> k], st[l], l)
                   ELSE Finish([op |-> "setbad", k |-> k, exc |-> "error"], st[l], l)
\* update({k: v, k2: <unstorable>}): file_archive encodes the whole dictionary before it replaces the file (atomic);
\* dir_archive and the sqlite table store item by item - deviation "update_partial_on_failure": the items written
\* before the failing one stay
UpdateBad(l, k, v, k2) ==
  LET e0 == [op |-> "updatebad", k |-> k, v |-> v, k2 |-> k2]
  IN /\ UNCHANGED ex
     /\ IF BACKEND = "dict" THEN Finish(e0, Store(Store(st[l], k, v), k2, BAD), l)
        ELSE IF BACKEND = "null" THEN Finish(e0, st[l], l)
        ELSE IF BACKEND \in {"dir", "sql"} /\ "update_partial_on_failure" \in Deviations
             THEN Finish(e0 @@ [exc |-> "error"], Store(st[l], k, v), l)
        ELSE Finish(e0 @@ [exc |-> "error"], st[l], l)
Clear(l) == /\ UNCHANGED ex /\ Finish([op |-> "clear"], EmptySt, l)
Copy(l, o) == /\ ~ex[o] /\ ex' = [ex EXCEPT ![o] = TRUE]
              /\ LET st2 == [st EXCEPT ![o] = st[l]]
                     c2  == [x \in 1..NL |-> Abs(st2[x])]
                     e0  == [op |-> "copy", o |-> o, loc |-> l]
                 IN /\ st' = st2 /\ hist' = Append(hist, e0) /\ n' = n + 1
                    /\ last' = e0 @@ [c |-> c2, n |-> [x \in 1..NL |-> Cardinality(Dom(c2[x]))],
                                      kk |-> [x \in 1..NL |-> SortedSeq(Dom(c2[x]))], usable |-> TRUE, cf |-> c2,
                                      k |-> 1, v |-> 0, k2 |-> 1, v2 |-> 0, d |-> 0, ks |-> <<>>, ri |-> 0, rs |-> <<>>, exc |-> "none"]
Eq(l, o, which) == /\ UNCHANGED ex /\ ex[o]
                   /\ Finish([op |-> which, o |-> o, ri |-> IF (Abs(st[l]) = Abs(st[o])) = (which # "ne") THEN 1 ELSE 0], st[l], l)

Val(k, j) == 10 * k + j
KeySeqs == {<<1>>, <<2>>, <<1, 2>>, <<2, 3>>, <<2, 1, 2>>}
Live == {l \in 1..NL : ex[l]}

Init == /\ st = [l \in 1..NL |-> EmptySt] /\ ex = [l \in 1..NL |-> l < NL]      \* the last location is the copy target
        /\ last = [op |-> "init"] /\ hist = <<>> /\ n = 0
Next ==
  /\ n < DEPTH
  /\ \E l \in Live :
     \/ "set" \in OPS /\ \E k \in 1..NK, j \in 1..NV : Set(l, k, Val(k, j))
     \/ "get" \in OPS /\ \E k \in 1..NK : Get(l, k)
     \/ "getd" \in OPS /\ \E k \in 1..NK : GetD(l, k, 77)
     \/ "del" \in OPS /\ \E k \in 1..NK : Del(l, k)
     \/ "contains" \in OPS /\ \E k \in 1..NK : Contains(l, k)
     \/ "len" \in OPS /\ LenOp(l)
     \/ \E w \in {"iter", "keys", "values", "items"} : w \in OPS /\ Keys(l, w)
     \/ "pop" \in OPS /\ \E k \in 1..NK : Pop(l, k)
     \/ "popd" \in OPS /\ \E k \in 1..NK : PopD(l, k, 77)
     \/ "popitem" \in OPS /\ PopItem(l)
     \/ "popkeys" \in OPS /\ \E ks \in KeySeqs : PopKeys(l, ks)
     \/ "popkeysd" \in OPS /\ \E ks \in KeySeqs : PopKeysD(l, ks, 77)
     \/ "setdefault" \in OPS /\ \E k \in 1..NK, j \in 1..NV : SetDefault(l, k, Val(k, j))
     \/ "update" \in OPS /\ \E j \in 1..NV : Update(l, 1, Val(1, j), 2, Val(2, j))
     \/ "setbad" \in OPS /\ \E k \in 1..NK : SetBad(l, k)
     \/ "updatebad" \in OPS /\ \E j \in 1..NV : UpdateBad(l, 1, Val(1, j), 2)
     \/ "clear" \in OPS /\ Clear(l)
     \/ "copy" \in OPS /\ l = 1 /\ Copy(l, NL)
     \/ \E w \in {"eq", "ne"} : w \in OPS /\ \E o \in Live \ {l} : Eq(l, o, w)
Spec == Init /\ [][Next]_vars

StepOK == Failed({"C03"}, Cfg, PState, last') = {}
Refines == [][StepOK]_vars
=============================================================================

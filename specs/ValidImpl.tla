------------------------------ MODULE ValidImpl ------------------------------
(***************************************************************************)
(* Layer I for C19: klepto._inspect.signature() + validate() transcribed   *)
(* (partial unwrapping, the '!' markup for parameters a partial makes      *)
(* unsettable, the sequence of tests in validate()), over a catalogue of   *)
(* signature shapes x kinds of callable x partials x calls.                *)
(*                                                                         *)
(* TLC checks, for every (target, call) of the catalogue, that the         *)
(* transcribed validate() accepts exactly the calls Python's binding       *)
(* accepts (ImplOK).  Named deviations switch behaviour of the pinned      *)
(* commit back on:                                                         *)
(*   "kwonly_unknown"      validate() did not know keyword-only parameters *)
(*                         (rejected them as unexpected keywords, never    *)
(*                         required them)                                  *)
(*   "bound_self_counted"  for a partial over a bound method or a callable *)
(*                         instance, the positionals fixed by the partial  *)
(*                         were counted against a parameter list that      *)
(*                         still contained self                            *)
(*   "posonly_unknown"     validate() did not know positional-only         *)
(*                         parameters (accepted them by keyword)           *)
(*   "posonly_partial_keyword"  a keyword FIXED BY A PARTIAL that has the  *)
(*                         name of a positional-only parameter is still    *)
(*                         taken for that parameter (the code as it is)    *)
(***************************************************************************)
EXTENDS ValidP

CONSTANTS Shapes,     \* shape ids (0..159)
          Kinds,      \* subset of {"func", "method", "callable"}
          MAXPA,      \* partial: at most this many fixed positionals
          PKNames,    \* partial: names usable as fixed keywords
          MAXPK,      \* partial: at most this many fixed keywords
          MAXNP,      \* call: at most this many positionals
          KwNames,    \* call: names usable as keywords
          MAXK,       \* call: at most this many keywords
          Deviations

P(n)  == [n |-> n, hd |-> FALSE, d |-> Dv, po |-> FALSE]
PD(n) == [n |-> n, hd |-> TRUE, d |-> Dv, po |-> FALSE]
\* ids 0..159: no positional-only parameter; 160..319: the same shapes with the FIRST parameter positional-only
\* (def f(x, /, ...)); 320..479: ALL positional parameters positional-only (def f(x, y, z=1, /, ...))
Shape(i0) ==
  LET i   == i0 % 160
      pom == i0 \div 160
      a   == i % 10
      pos0 == CASE a = 0 -> <<>>
               [] a = 1 -> <<P("x")>>
               [] a = 2 -> <<PD("x")>>
               [] a = 3 -> <<P("x"), P("y")>>
               [] a = 4 -> <<P("x"), PD("y")>>
               [] a = 5 -> <<PD("x"), PD("y")>>
               [] a = 6 -> <<P("x"), P("y"), P("z")>>
               [] a = 7 -> <<P("x"), P("y"), PD("z")>>
               [] a = 8 -> <<P("x"), PD("y"), PD("z")>>
               [] OTHER -> <<PD("x"), PD("y"), PD("z")>>
      pos == [x \in 1..Len(pos0) |-> IF (pom = 1 /\ x = 1) \/ pom = 2 THEN [pos0[x] EXCEPT !.po = TRUE] ELSE pos0[x]]
      va  == ((i \div 10) % 2) = 1
      b   == (i \div 20) % 4
      ko  == CASE b = 0 -> <<>> [] b = 1 -> <<P("k")>> [] b = 2 -> <<PD("k")>> [] OTHER -> <<P("k"), PD("j")>>
      vk  == ((i \div 80) % 2) = 1
  IN [pos |-> pos, va |-> va, ko |-> ko, vk |-> vk]

Code(n) == CASE n = "x" -> 1 [] n = "y" -> 2 [] n = "z" -> 3 [] n = "k" -> 4 [] n = "j" -> 5 [] n = "w" -> 6 [] OTHER -> 9
RECURSIVE Sorted(_)
Sorted(S) == IF S = {} THEN <<>>
             ELSE LET m == CHOOSE x \in S : \A y \in S : Code(x) <= Code(y) IN <<m>> \o Sorted(S \ {m})
SubsetsUpTo(S, m) == {X \in SUBSET S : Cardinality(X) <= m}
Min(a, b) == IF a <= b THEN a ELSE b

Targets == {[sig |-> Shape(i), kind |-> kd, partial |-> FALSE, pa |-> 0, pk |-> <<>>] : i \in Shapes, kd \in Kinds}
      \cup {[sig |-> Shape(i), kind |-> kd, partial |-> TRUE, pa |-> a, pk |-> Sorted(X)] :
              i \in Shapes, kd \in Kinds, a \in 0..MAXPA, X \in SubsetsUpTo(PKNames, MAXPK)}
CallSet == {[np |-> n, k |-> Sorted(X)] : n \in 0..MAXNP, X \in SubsetsUpTo(KwNames, MAXK)}

-----------------------------------------------------------------------------
(* klepto._inspect.signature(func) with markup=True, as validate() uses it *)
Signature(t) ==
  LET sig   == t.sig
      posn  == [x \in 1..Len(sig.pos) |-> sig.pos[x].n]
      bound == t.kind # "func"
      selfIn == bound /\ "bound_self_counted" \in Deviations
      \* getfullargspec lists self for a bound method and for an instance with __call__
      argn  == IF selfIn THEN <<"self">> \o posn ELSE posn
      pa    == IF t.partial THEN t.pa ELSE 0
      pkw   == IF t.partial THEN ToSet(t.pk) ELSE {}
      fixed == {argn[x] : x \in 1..Min(pa, Len(argn))}
      dflt  == {sig.pos[x].n : x \in {y \in 1..Len(sig.pos) : sig.pos[y].hd}}
               \cup {sig.ko[x].n : x \in {y \in 1..Len(sig.ko) : sig.ko[y].hd}} \cup pkw
      expl0 == SelectSeq(argn, LAMBDA n : n \notin fixed)
      \* `if inspect.ismethod(func) and func.__self__: explicit = explicit[1:]`: func is a bound method for
      \* kind "method" and for a bare callable instance (replaced by its __call__), but a partial over an
      \* instance keeps the instance
      strip == selfIn /\ ~(t.kind = "callable" /\ t.partial)
      expl  == IF strip /\ expl0 # <<>> THEN Tail(expl0) ELSE expl0
  IN [err |-> (fixed \cap pkw) # {},
      named |-> expl,
      badargs |-> {n \in ToSet(expl) : n \in pkw},
      badkwds |-> fixed,
      defaults |-> dflt \ fixed]

(* klepto._inspect.validate(func, *args, **kwds): TRUE = returns None, FALSE = raises TypeError *)
Validate(t, c) ==
  LET s      == Signature(t)
      sig    == t.sig
      pa     == IF t.partial THEN t.pa ELSE 0
      pkw    == IF t.partial THEN ToSet(t.pk) ELSE {}
      kwonly == IF "kwonly_unknown" \in Deviations THEN {} ELSE Names(sig.ko)
      named  == s.named
      namedS == ToSet(named)
      \* positional-only parameters cannot be given by keyword: a keyword of that name (in the call or fixed by a partial)
      \* is one of the **kwds.  Deviation "posonly_unknown" (pinned behaviour): validate() treated them like any other name
      poN    == IF "posonly_unknown" \in Deviations THEN {}
                ELSE {sig.pos[x].n : x \in {y \in 1..Len(sig.pos) : IsPO(sig.pos[y])}}
      own    == {sig.pos[x].n : x \in {y \in 1..Len(sig.pos) : sig.pos[y].hd}}     \* the function's own defaults
      kw     == ToSet(c.k) \ poN               \* keywords that name a parameter
      kwx    == ToSet(c.k) \cap poN            \* keywords that can only go to **kwds
      \* the same for a keyword FIXED BY A PARTIAL: deviation "posonly_partial_keyword" (behaviour of the code as it is, a
      \* recorded finding): signature() still marks the parameter as set by keyword
      poNp   == IF "posonly_partial_keyword" \in Deviations THEN {} ELSE poN
      badargs == s.badargs \ poNp
      serr   == ((s.badkwds \cap pkw) \ poNp) # {}
      pvarkw == ((pkw \ (s.badkwds \ poNp)) \ badargs) \ kwonly
      argskw == {named[x] : x \in 1..Min(Len(named), c.np)}
      required == ((namedS \cup kwonly) \ s.defaults) \cup ((poNp \cap namedS) \ own)
  IN /\ ~serr                                            \* signature(): the partial always fails
     /\ ~(pvarkw # {} /\ ~sig.vk)                        \* partial built for **kwds the function lacks
     /\ ~(pa > Len(sig.pos) /\ ~sig.va)                  \* partial built for *args the function lacks
     /\ ~(c.np > Len(named) /\ ~sig.va)                  \* too many positionals
     /\ ~((((kw \ namedS) \ kwonly) \cup kwx) # {} /\ ~sig.vk)      \* unexpected keyword
     /\ badargs \cap argskw = {}                         \* positional for a parameter the partial fixed by keyword
     /\ s.badkwds \cap kw = {}                           \* keyword for a parameter the partial fixed positionally
     /\ argskw \cap kw = {}                              \* duplicates
     /\ required \subseteq (kw \cup argskw)              \* all required provided

-----------------------------------------------------------------------------
VARIABLES t, c, ph
vars == <<t, c, ph>>
NoCall == [np |-> 0, k |-> <<>>]
Init == t \in Targets /\ c = NoCall /\ ph = 0
Next == ph = 0 /\ \E cc \in CallSet : c' = cc /\ ph' = 1 /\ UNCHANGED t
Spec == Init /\ [][Next]_vars

ImplOK == ph = 1 => (Validate(t, c) = ValidCall(t, c))
\* non-vacuity: both verdicts occur for partials and for keyword-only parameters (checked with -coverage by the harness)
=============================================================================

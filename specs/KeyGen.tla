------------------------------- MODULE KeyGen -------------------------------
(* emits the catalogue of layer I as JSON: one line per (signature, ignore specification) group with
   every valid call within the bounds; harness/key_checks.py materialises each group as a real Python
   function, decorates it with real klepto caches / keygen and makes every call (B2: spec -> code). *)
EXTENDS KeyImpl, Json
Group == [sid |-> sid, iid |-> iid, sig |-> Sig(sid),
          ign |-> [names |-> Ign(iid).names, idx |-> Ign(iid).idx, star |-> Ign(iid).star, dstar |-> Ign(iid).dstar],
          calls |-> {c \in Calls : Valid(Sig(sid), c)}]
Emit == ph = 0 => PrintT(<<"GROUP", ToJson(Group)>>)
\* the same with the calls Python rejects as well (a parameter given twice, a missing or unknown argument): the decorated
\* function must reject them too, whatever valid calls have left in the cache
GroupAll == [Group EXCEPT !.calls = Calls]
EmitAll == ph = 0 => PrintT(<<"GROUP", ToJson(GroupAll)>>)
GSpec == Init /\ [][FALSE]_vars
=============================================================================

----------------------------- MODULE DictTrace -----------------------------
(* trace validation of real archive executions against DictP (total: see CacheTrace) *)
EXTENDS DictP, Json, IOUtils, TLCExt
CONSTANT Props
J == JsonDeserialize(IOEnv.TRACE_FILE)
T == J.traces
VARIABLES tid, l, S, rej
vars == <<tid, l, S, rej>>
TraceInit == /\ tid \in 1..Len(T) /\ l = 0 /\ rej = {}
             /\ S = [c |-> T[tid].init.c, ex |-> T[tid].init.ex]
TraceNext ==
  /\ rej = {}
  /\ l < Len(T[tid].events)
  /\ LET e == T[tid].events[l + 1]
         cfg == T[tid].cfg
         bad == Names2(Failed(Props, cfg, S, e))
     IN IF bad = {}
        THEN /\ l' = l + 1 /\ S' = Adopt(cfg, S, e) /\ UNCHANGED <<tid, rej>>
        ELSE /\ rej' = bad /\ PrintT(<<"REJECT", tid, l + 1, bad>>) /\ UNCHANGED <<tid, l, S>>
TraceSpec == TraceInit /\ [][TraceNext]_vars
=============================================================================

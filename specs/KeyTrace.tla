------------------------------ MODULE KeyTrace ------------------------------
(* trace validation of real key computations / cached calls against KeyP (total: see CacheTrace) *)
EXTENDS KeyP, Json, IOUtils, TLCExt
CONSTANT Props
J == JsonDeserialize(IOEnv.TRACE_FILE)
T == J.traces
VARIABLES tid, l, S, rej
vars == <<tid, l, S, rej>>
TraceInit == tid \in 1..Len(T) /\ l = 0 /\ rej = {} /\ S = [seen |-> {}]
Ign(t) == [names |-> ToSet(t.ign.names), idx |-> ToSet(t.ign.idx), star |-> t.ign.star, dstar |-> t.ign.dstar]
TraceNext ==
  /\ rej = {}
  /\ l < Len(T[tid].events)
  /\ LET t == T[tid]
         e == t.events[l + 1]
         bad == Names2(Failed(Props, t.sig, Ign(t), t.km, t.cached, S, e))
     IN IF bad = {}
        THEN /\ l' = l + 1 /\ S' = Adopt(t.sig, Ign(t), S, e) /\ UNCHANGED <<tid, rej>>
        ELSE /\ rej' = bad /\ PrintT(<<"REJECT", tid, l + 1, bad>>) /\ UNCHANGED <<tid, l, S>>
TraceSpec == TraceInit /\ [][TraceNext]_vars
=============================================================================

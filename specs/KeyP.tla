-------------------------------- MODULE KeyP --------------------------------
(***************************************************************************)
(* Layer P for cache keys (properties C09, C10, C11, C17).                 *)
(*                                                                         *)
(* The oracle is Python's own argument binding, transcribed as PyBind.     *)
(* A value is a record [t |-> type name, v |-> integer code]; numeric      *)
(* values of different types with the same code compare equal in Python    *)
(* (1 == 1.0 == True), strings have codes >= 100.                          *)
(*                                                                         *)
(* sig  = [pos : Seq([n, hd, d]), va : BOOLEAN, ko : Seq([n, hd, d]),      *)
(*         vk : BOOLEAN]                                                   *)
(* call = [p : Seq(value), k : Seq([n, v])]   (keywords in call order)     *)
(* ign  = [names : set of names, idx : set of 0-based indices,             *)
(*         star : BOOLEAN ('*'), dstar : BOOLEAN ('**')]                   *)
(* km   = [enc : "raw"|"str"|"pickle"|"hash", flat, typed, sentinel]       *)
(***************************************************************************)
EXTENDS Naturals, Integers, Sequences, FiniteSets, TLC

ToSet(s)   == {s[x] : x \in 1..Len(s)}
Names(ps)  == {ps[x].n : x \in 1..Len(ps)}
\* a clause is only evaluated when its property is selected (TLC evaluates IF lazily)
Chk(props, p, name, cond) == IF p \notin props THEN {} ELSE IF cond THEN {} ELSE {<<p, name>>}

Num == {"int", "float", "bool"}
PyEq(a, b)    == IF a.t \in Num /\ b.t \in Num THEN a.v = b.v ELSE a = b
Same(a, b)    == a = b

(***************************************************************************)
(* Python's binding of call arguments to parameters.                       *)
(***************************************************************************)
\* positional-only parameters (def f(x, /, y)): the record of such a parameter has po = TRUE.  They cannot be bound by
\* keyword: a keyword of that name is an ordinary EXTRA keyword when the function has **kw (f(1, x=2) binds x = 1 and
\* kw = {'x': 2}), and an error otherwise.
IsPO(pp) == "po" \in DOMAIN pp /\ pp.po
PyBind(sig, c) ==
  LET np    == Len(sig.pos)
      nP    == Len(c.p)
      pn    == [x \in 1..np |-> sig.pos[x].n]
      posn  == Names(sig.pos)
      poN   == {sig.pos[x].n : x \in {y \in 1..np : IsPO(sig.pos[y])}}
      byname == posn \ poN                  \* positional-or-keyword parameters
      kon   == Names(sig.ko)
      kwn   == {c.k[x].n : x \in 1..Len(c.k)}
      bypos == {pn[x] : x \in 1..(IF nP < np THEN nP ELSE np)}
      tooMany == nP > np /\ ~sig.va
      dup     == kwn \cap (bypos \ poN) # {}
      unknown == (kwn \ (byname \cup kon)) # {} /\ ~sig.vk
      kwval(nm) == (CHOOSE x \in ToSet(c.k) : x.n = nm).v
      missing == \/ \E x \in 1..np : x > nP /\ ~(pn[x] \in kwn /\ pn[x] \in byname) /\ ~sig.pos[x].hd
                 \/ \E x \in 1..Len(sig.ko) : sig.ko[x].n \notin kwn /\ ~sig.ko[x].hd
      val(nm) == IF nm \in bypos THEN c.p[CHOOSE x \in 1..np : pn[x] = nm]
                 ELSE IF nm \in kwn /\ nm \notin poN THEN kwval(nm)
                 ELSE IF nm \in posn THEN sig.pos[CHOOSE x \in 1..np : pn[x] = nm].d
                 ELSE sig.ko[CHOOSE x \in 1..Len(sig.ko) : sig.ko[x].n = nm].d
  IN IF tooMany \/ dup \/ unknown \/ missing
     THEN [ok |-> FALSE, b |-> <<>>, extra |-> <<>>, xkw |-> {}]
     ELSE [ok |-> TRUE,
           b |-> [nm \in posn \cup kon |-> val(nm)],
           extra |-> IF nP > np THEN SubSeq(c.p, np + 1, nP) ELSE <<>>,
           xkw |-> {x \in ToSet(c.k) : x.n \notin byname \cup kon}]

(***************************************************************************)
(* Which parts of a binding an ignore specification removes.               *)
(* A positional index selects the parameter at that index, or the extra    *)
(* positional at that index when it lies beyond the named parameters.      *)
(***************************************************************************)
IgnoredNames(sig, ign) ==
  ign.names \cup {sig.pos[x].n : x \in {y \in 1..Len(sig.pos) : (y - 1) \in ign.idx}}

\* the normal form of a bound call: what must determine the key
NF(sig, ign, bd) ==
  LET inames == IgnoredNames(sig, ign)
      np == Len(sig.pos)
  IN [b |-> [nm \in (DOMAIN bd.b) \ inames |-> bd.b[nm]],
      extra |-> IF ign.star THEN <<>>
                ELSE [x \in 1..Len(bd.extra) |-> IF (np + x - 1) \in ign.idx THEN [t |-> "NULL", v |-> 0] ELSE bd.extra[x]],
      \* (a name in the ignore specification selects the PARAMETER of that name; an extra keyword that merely shares its
      \* name with a positional-only parameter - f(1, x=2) for def f(x, /, **kw) - is not what the name selects)
      xkw |-> IF ign.dstar THEN {}
              ELSE {x \in bd.xkw : x.n \notin inames \/ x.n \in {sig.pos[y].n : y \in {z \in 1..np : IsPO(sig.pos[z])}}}]

NFSame(a, b) == a = b      \* identical (type and value): antecedent of C09 / C11

\* some non-ignored part binds UNEQUAL values (Python ==), or differs in type when typed
NFDiffer(a, b, typed) ==
  LET neq(u, w) == IF typed THEN u # w ELSE ~PyEq(u, w)
  IN \/ \E nm \in DOMAIN a.b : neq(a.b[nm], b.b[nm])
     \/ Len(a.extra) # Len(b.extra)
     \/ \E x \in 1..Len(a.extra) : x <= Len(b.extra) /\ neq(a.extra[x], b.extra[x])
     \/ {x.n : x \in a.xkw} # {x.n : x \in b.xkw}
     \/ \E x \in a.xkw : \E y \in b.xkw : x.n = y.n /\ neq(x.v, y.v)

\* the side condition of C10
InfoPreserving(sig, km) ==
  /\ km.enc \in {"raw", "str", "pickle", "hash"}
  /\ (~km.flat \/ km.sentinel \/ ~sig.va)

(***************************************************************************)
(* Judging one recorded call.  S.seen = the earlier calls of this group:   *)
(* records [nf, kc, full] (normal form, observed key class, full binding). *)
(* e = [call, bind (what the function actually received: ok/b/extra/xkw),  *)
(*      kc (observed key class), kind ("hit"/"miss"/"none"), evals,        *)
(*      retok, exc]                                                        *)
(***************************************************************************)
XkwSet(s) == ToSet(s)
\* bindings are logged as [ok, b : Seq([n, v]), extra : Seq(value), xkw : Seq([n, v])]
FromLog(r) == [ok |-> r.ok,
               b |-> [nm \in {x.n : x \in ToSet(r.b)} |-> (CHOOSE x \in ToSet(r.b) : x.n = nm).v],
               extra |-> r.extra, xkw |-> ToSet(r.xkw)]

Failed(props0, sig, ign, km, cached, S, e) ==
  LET props == props0 \cup {"ORACLE"}
      bd  == PyBind(sig, e.call)
      nf  == NF(sig, ign, bd)
      sameBefore == {s \in S.seen : NFSame(s.nf, nf)}
  IN
  IF ~bd.ok THEN   \* an invalid call must fail exactly as the undecorated function does
       Chk(props, "ORACLE", "ORACLE.InvalidCallAccepted", ~e.bind.ok)
       \* ... also when a VALID call has left a result under the key that the decorator computes for the invalid one
  \cup Chk(props, "C01", "C01.InvalidCallFails", cached => e.exc # "none")
  ELSE
       Chk(props, "ORACLE", "ORACLE.PyBind", e.exc = "none" =>
             FromLog(e.bind) = bd)
  \cup Chk(props, "C09", "C09.KeyComputed", e.exc = "none")
  \cup Chk(props, "C09", "C09.Canonical", \A s \in sameBefore : s.kc = e.kc)
  \cup Chk(props, "C09", "C09.ServedFromCache", (cached /\ e.exc = "none" /\ \E s \in sameBefore : s.full = bd)
                                            => e.kind = "hit" /\ e.evals = 0)
  \cup Chk(props, "C11", "C11.IgnoredIrrelevant", \A s \in sameBefore : s.kc = e.kc)
  \cup Chk(props, "C11", "C11.NotReevaluated", (cached /\ e.exc = "none" /\ sameBefore # {}) => e.kind = "hit" /\ e.evals = 0)
  \cup Chk(props, "C10", "C10.Discriminates", InfoPreserving(sig, km) =>
             \A s \in S.seen : NFDiffer(s.nf, nf, km.typed) => s.kc # e.kc)
  \cup Chk(props, "C11", "C11.OthersDiscriminate", InfoPreserving(sig, km) =>
             \A s \in S.seen : NFDiffer(s.nf, nf, km.typed) => s.kc # e.kc)
  \cup Chk(props, "C10", "C10.OwnResult", (cached /\ e.exc = "none" /\ InfoPreserving(sig, km)) =>
             ~NFDiffer(NF(sig, ign, FromLog(e.ret)), nf, km.typed))
  \* memoization transparency on the key catalogue: the decorated function returns what the function returns for THIS call
  \* (equal by Python's ==, as the statement says: under an untyped raw keymap f(1.0) may be answered with f(1)'s value)
  \cup Chk(props, "C01", "C01.ReturnsFunctionValue", (cached /\ e.exc = "none" /\ InfoPreserving(sig, km) /\ e.ret.ok) =>
             LET none == [names |-> {}, idx |-> {}, star |-> FALSE, dstar |-> FALSE]
             IN ~NFDiffer(NF(sig, none, FromLog(e.ret)), NF(sig, none, bd), FALSE))
  \cup Chk(props, "C01", "C01.ReturnsAValue", (cached /\ e.exc = "none") => e.ret.ok)
  \cup Chk(props, "C01", "C01.CallSucceeds", (cached /\ e.bind.ok) => e.exc = "none")
  \cup Chk(props, "C17", "C17.KeyStable", \A x \in 1..Len(e.khex) : e.khex[x] = e.khex[1])
  \cup Chk(props, "C17", "C17.FoundInLaterSession", \A x \in 1..Len(e.later) : e.later[x] \in {"load", "hit"})

Adopt(sig, ign, S, e) ==
  LET bd == PyBind(sig, e.call)
  IN IF bd.ok /\ e.exc = "none"
     THEN [seen |-> S.seen \cup {[nf |-> NF(sig, ign, bd), kc |-> e.kc, full |-> bd]}]
     ELSE S

Names2(failed) == {x[2] : x \in failed}
=============================================================================

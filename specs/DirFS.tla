------------------------------- MODULE DirFS -------------------------------
(***************************************************************************)
(* Layer I for dir_archive as a shared durable store: one action per file-  *)
(* system call of each operation, any process may be killed between calls, *)
(* processes interleave call by call.                                      *)
(*                                                                         *)
(* The archive root holds one sub-directory per key (fin[k]) and, while a  *)
(* store is in progress, the writer's staging directory (tmp[p], named     *)
(* K_.I_<md5>).  A directory is [ex, out]: ex = it exists, out = contents   *)
(* of its output file (0 = no file, -1 = empty / partly written, v > 0 =   *)
(* complete value v).                                                      *)
(*                                                                         *)
(* Programs (klepto/_archives.py, dir_archive):                            *)
(*  _store(k, v):  mkdir staging; creat staging/out; write; close;         *)
(*                 _rmdir(k) = scandir final, unlink final/out, rmdir      *)
(*                 final (errors ignored); rename staging -> final (OSError *)
(*                 swallowed); rmdir root (os.renames pruning, ENOTEMPTY)   *)
(*  __delitem__ / pop: [stat / open+read]; scandir, unlink, rmdir           *)
(*  clear:         scandir root; per listed directory: scandir, unlink,     *)
(*                 rmdir                                                    *)
(*  _lookup(k):    open final/out + read (KeyError on any failure)          *)
(*  __contains__:  stat final                                               *)
(*  _lsdir:        scandir root (every K_* directory is an entry)           *)
(*  _keydict:      _lsdir, then per entry scandir it (stored input?) -> key *)
(*  __asdict__ / items: _keydict, then _lookup per key                      *)
(*                                                                         *)
(* Named deviations (the pinned commit's behaviour):                       *)
(*   "dir_temp_listed"       _lsdir also lists staging directories         *)
(*   "dir_remove_then_rename" the final directory is removed before the    *)
(*                           staging directory is renamed onto it (off =    *)
(*                           the entry is replaced in one step: since fix   *)
(*                           `overwrites an existing entry file by file`    *)
(*                           the code moves each staged file over its       *)
(*                           predecessor with os.replace, which for the     *)
(*                           one output file of the model is one step)      *)
(*   "staging_name_shared"   every process stages in the SAME directory    *)
(*                           (names drawn from a generator the processes    *)
(*                           seeded alike; the code as it was, see _store)  *)
(*   "dir_delete_in_place"   a directory is deleted file by file in place  *)
(*                           (off = renamed away first)                     *)
(*   "asdict_keyerror_escapes" __asdict__ lets the KeyError of an entry    *)
(*                           that vanished after the listing escape        *)
(***************************************************************************)
EXTENDS FsP

CONSTANTS NK,          \* keys
          SCEN,        \* scenario id (initial contents + one operation per process), see Scenario
          CRASH,       \* TRUE: processes may be killed (C13);  FALSE: they run to completion (C14)
          Deviations

Op(t, k, v)          == [t |-> t, k |-> k, v |-> v, k2 |-> 1, v2 |-> 0]
Op2(t, k, v, k2, v2) == [t |-> t, k |-> k, v |-> v, k2 |-> k2, v2 |-> v2]
Scenario(i) ==
  CASE i = 1  -> [init |-> <<0, 0>>,  ops |-> <<Op("set", 1, 11)>>]
    [] i = 2  -> [init |-> <<10, 0>>, ops |-> <<Op("set", 1, 11)>>]
    [] i = 3  -> [init |-> <<10, 20>>, ops |-> <<Op("del", 1, 0)>>]
    [] i = 4  -> [init |-> <<10, 20>>, ops |-> <<Op("pop", 1, 0)>>]
    [] i = 5  -> [init |-> <<10, 20>>, ops |-> <<Op("clear", 1, 0)>>]
    [] i = 6  -> [init |-> <<10, 0>>, ops |-> <<Op2("update", 1, 11, 2, 21)>>]
    [] i = 7  -> [init |-> <<10, 20>>, ops |-> <<Op("open", 1, 0)>>]
    \* concurrent pairs
    [] i = 11 -> [init |-> <<0, 0>>,  ops |-> <<Op("set", 1, 11), Op("set", 2, 21)>>]
    [] i = 12 -> [init |-> <<10, 0>>, ops |-> <<Op("set", 2, 21), Op("get", 1, 0)>>]
    [] i = 13 -> [init |-> <<10, 0>>, ops |-> <<Op("set", 2, 21), Op("keys", 1, 0)>>]
    [] i = 14 -> [init |-> <<10, 0>>, ops |-> <<Op("set", 2, 21), Op("items", 1, 0)>>]
    [] i = 15 -> [init |-> <<10, 0>>, ops |-> <<Op("set", 2, 21), Op("len", 1, 0)>>]
    [] i = 16 -> [init |-> <<10, 0>>, ops |-> <<Op("set", 1, 11), Op("get", 1, 0)>>]
    [] i = 17 -> [init |-> <<10, 0>>, ops |-> <<Op("set", 1, 11), Op("items", 1, 0)>>]
    [] i = 18 -> [init |-> <<10, 20>>, ops |-> <<Op("del", 1, 0), Op("items", 1, 0)>>]
    [] i = 19 -> [init |-> <<10, 0>>, ops |-> <<Op("set", 1, 11), Op("contains", 1, 0)>>]
    [] i = 20 -> [init |-> <<10, 0>>, ops |-> <<Op("set", 2, 21), Op("load", 1, 0)>>]
    [] i = 21 -> [init |-> <<10, 20>>, ops |-> <<Op("del", 1, 0), Op("set", 2, 21)>>]
    [] i = 22 -> [init |-> <<0, 0>>, ops |-> <<Op("set", 1, 11), Op("set", 2, 21), Op("items", 1, 0)>>]
    \* a process that merely opens the archive while another one writes / overwrites (opening does nothing to the store)
    [] i = 23 -> [init |-> <<10, 0>>, ops |-> <<Op("set", 2, 21), Op("open", 1, 0)>>]
    [] i = 25 -> [init |-> <<10, 0>>, ops |-> <<Op("set", 1, 11), Op("open", 1, 0)>>]
    [] i = 27 -> [init |-> <<0, 0>>, ops |-> <<Op("set", 1, 11), Op("set", 1, 12)>>]
    [] i = 28 -> [init |-> <<10, 0>>, ops |-> <<Op("set", 1, 11), Op("set", 1, 12)>>]
    \* a membership test (on a key with a history), after which that process keeps its handle and stays idle while
    \* another process stores a different key
    [] i = 29 -> [init |-> <<10, 0>>, ops |-> <<Op("contains", 1, 0), Op("set", 2, 21)>>]
    [] OTHER -> [init |-> <<0, 0>>, ops |-> <<Op("len", 1, 0)>>]
Sc == Scenario(SCEN)
NP == Len(Sc.ops)
Ops == Sc.ops

NoDir == [ex |-> FALSE, out |-> 0]
VARIABLES fin, tmp, pc, loc, res, dead, sched
vars == <<fin, tmp, pc, loc, res, dead, sched>>
\* loc[p]: locals of process p: ls (names listed, a sequence), i (position), acc (map built so far), ph (phase: first / second key of an update)
NoRes == [ok |-> TRUE, exc |-> "none", i |-> 0, m |-> EmptyMap(NK)]
Name(kind, x) == <<kind, x>>

Start(o) == CASE o.t \in {"set", "update", "dump"} -> "mkdir"
              [] o.t = "del" -> "stat"
              [] o.t = "pop" -> "popread"
              [] o.t = "clear" -> "clist"
              [] o.t = "get" -> "open"
              [] o.t = "contains" -> "stat"
              [] o.t \in {"len", "keys", "items", "load"} -> "list"
              [] OTHER -> "done"

Init == /\ fin = [k \in 1..NK |-> IF Sc.init[k] # 0 THEN [ex |-> TRUE, out |-> Sc.init[k]] ELSE NoDir]
        /\ tmp = [p \in 1..NP |-> NoDir]
        /\ pc = [p \in 1..NP |-> Start(Ops[p])]
        /\ loc = [p \in 1..NP |-> [ls |-> <<>>, i |-> 1, acc |-> EmptyMap(NK), ph |-> 1]]
        /\ res = [p \in 1..NP |-> NoRes]
        /\ dead = [p \in 1..NP |-> FALSE]
        /\ sched = <<>>

\* the key / value the writer is currently storing (an update stores its two keys one after the other)
CurK(p) == IF loc[p].ph = 1 THEN Ops[p].k ELSE Ops[p].k2
CurV(p) == IF loc[p].ph = 1 THEN Ops[p].v ELSE Ops[p].v2
Listing == LET finals == {Name("f", k) : k \in {x \in 1..NK : fin[x].ex}}
               temps  == IF "dir_temp_listed" \in Deviations THEN {Name("t", q) : q \in {x \in 1..NP : tmp[x].ex}} ELSE {}
           IN finals \cup temps
RECURSIVE SetToSeq(_)
SetToSeq(S) == IF S = {} THEN <<>> ELSE LET x == CHOOSE y \in S : TRUE IN <<x>> \o SetToSeq(S \ {x})
DirOf(nm) == IF nm[1] = "f" THEN fin[nm[2]] ELSE tmp[nm[2]]

Goto(p, l) == pc' = [pc EXCEPT ![p] = l]
Step(p, label) == sched' = Append(sched, <<p, label>>)
Finish(p, r) == /\ res' = [res EXCEPT ![p] = r] /\ Goto(p, "done")
KeyErr == [NoRes EXCEPT !.ok = FALSE, !.exc = "KeyError"]

(* ---- writer: _store ---- *)
\* The staging directory has a made-up name.  Deviation "staging_name_shared" (the code as it was: the name came from the
\* global random generator, which two processes may have seeded alike): every process uses staging directory 1.  mkdir of
\* a directory that exists, and open() in a directory that has been renamed away, raise OSError - which _store swallows,
\* going on to move "its" staging directory to the key.
T(p) == IF "staging_name_shared" \in Deviations THEN 1 ELSE p
AfterClose == IF "dir_remove_then_rename" \notin Deviations THEN "rename"
              ELSE IF "dir_delete_in_place" \in Deviations THEN "scan" ELSE "away"
Mkdir(p) == /\ pc[p] = "mkdir" /\ UNCHANGED <<fin, loc, res>> /\ Step(p, "mkdir")
            /\ IF tmp[T(p)].ex THEN UNCHANGED tmp /\ Goto(p, AfterClose)
               ELSE tmp' = [tmp EXCEPT ![T(p)] = [ex |-> TRUE, out |-> 0]] /\ Goto(p, "creat")
Creat(p) == /\ pc[p] = "creat" /\ UNCHANGED <<fin, loc, res>> /\ Step(p, "creat")
            /\ IF tmp[T(p)].ex THEN tmp' = [tmp EXCEPT ![T(p)].out = -1] /\ Goto(p, "write")
               ELSE UNCHANGED tmp /\ Goto(p, AfterClose)
Write(p) == /\ pc[p] = "write" /\ UNCHANGED <<fin, loc, res>> /\ Step(p, "write")
            /\ IF tmp[T(p)].ex THEN tmp' = [tmp EXCEPT ![T(p)].out = CurV(p)] ELSE UNCHANGED tmp
            /\ Goto(p, "close")
Close(p) == /\ pc[p] = "close" /\ UNCHANGED <<fin, tmp, loc, res>> /\ Step(p, "close")
            /\ Goto(p, AfterClose)
\* _rmdir(final): scandir; unlink each listed file; rmdir - every error ignored
Scan(p) == /\ pc[p] = "scan" /\ UNCHANGED <<fin, tmp, loc, res>> /\ Step(p, "scandir")
           /\ Goto(p, IF ~fin[CurK(p)].ex THEN "rename" ELSE IF fin[CurK(p)].out # 0 THEN "unlink" ELSE "rmdir")
\* _rmpath: the old entry (if any) is renamed to a staging name in one step, and removed from there (not visible)
Away(p) == /\ pc[p] = "away" /\ fin' = [fin EXCEPT ![CurK(p)] = NoDir] /\ Goto(p, "rename")
           /\ UNCHANGED <<tmp, loc, res>> /\ Step(p, "rename-away")
Unlink(p) == /\ pc[p] = "unlink" /\ fin' = [fin EXCEPT ![CurK(p)].out = 0] /\ Goto(p, "rmdir")
             /\ UNCHANGED <<tmp, loc, res>> /\ Step(p, "unlink")
Rmdir(p) == /\ pc[p] = "rmdir" /\ Goto(p, "rename") /\ UNCHANGED <<tmp, loc, res>> /\ Step(p, "rmdir")
            /\ fin' = IF fin[CurK(p)].ex /\ fin[CurK(p)].out = 0 THEN [fin EXCEPT ![CurK(p)] = NoDir] ELSE fin
Rename(p) == /\ pc[p] = "rename" /\ Step(p, "rename") /\ UNCHANGED <<loc, res>>
             /\ LET k == CurK(p)
                    can == ~fin[k].ex \/ fin[k].out = 0 \/ "dir_remove_then_rename" \notin Deviations
                IN IF can /\ tmp[T(p)].ex THEN fin' = [fin EXCEPT ![k] = tmp[T(p)]] /\ tmp' = [tmp EXCEPT ![T(p)] = NoDir]
                   ELSE UNCHANGED <<fin, tmp>>        \* ENOTEMPTY: the OSError is swallowed, the staging directory stays
             /\ Goto(p, "prune")
Prune(p) == /\ pc[p] = "prune" /\ Step(p, "rmdir-root") /\ UNCHANGED <<fin, tmp, res>>
            /\ IF Ops[p].t \in {"update", "dump"} /\ loc[p].ph = 1
               THEN loc' = [loc EXCEPT ![p].ph = 2] /\ Goto(p, "mkdir")
               ELSE loc' = loc /\ Goto(p, "done")

(* ---- delete / pop ---- *)
Stat(p) == /\ pc[p] = "stat" /\ Step(p, "stat") /\ UNCHANGED <<fin, tmp, loc>>
           /\ IF Ops[p].t = "contains" THEN Finish(p, [NoRes EXCEPT !.i = IF fin[Ops[p].k].ex THEN 1 ELSE 0])
              ELSE IF fin[Ops[p].k].ex THEN res' = res /\ Goto(p, "dscan") ELSE Finish(p, KeyErr)
PopRead(p) == /\ pc[p] = "popread" /\ Step(p, "open") /\ UNCHANGED <<fin, tmp, loc>>
              /\ IF fin[Ops[p].k].ex /\ fin[Ops[p].k].out > 0
                 THEN res' = [res EXCEPT ![p].i = fin[Ops[p].k].out] /\ Goto(p, "dscan")
                 ELSE Finish(p, KeyErr)
DelAway(p) ==    \* idealised: rename the directory to a staging name, then remove that
           /\ pc[p] = "dscan" /\ "dir_delete_in_place" \notin Deviations /\ Step(p, "rename-away")
           /\ fin' = [fin EXCEPT ![Ops[p].k] = NoDir] /\ UNCHANGED <<tmp, loc, res>> /\ Goto(p, "done")
DScan(p) == /\ pc[p] = "dscan" /\ "dir_delete_in_place" \in Deviations /\ Step(p, "scandir") /\ UNCHANGED <<fin, tmp, loc, res>>
            /\ Goto(p, IF fin[Ops[p].k].ex THEN (IF fin[Ops[p].k].out # 0 THEN "dunlink" ELSE "drmdir") ELSE "done")
DUnlink(p) == /\ pc[p] = "dunlink" /\ Step(p, "unlink") /\ fin' = [fin EXCEPT ![Ops[p].k].out = 0]
              /\ UNCHANGED <<tmp, loc, res>> /\ Goto(p, "drmdir")
DRmdir(p) == /\ pc[p] = "drmdir" /\ Step(p, "rmdir") /\ UNCHANGED <<tmp, loc, res>> /\ Goto(p, "done")
             /\ fin' = IF fin[Ops[p].k].ex /\ fin[Ops[p].k].out = 0 THEN [fin EXCEPT ![Ops[p].k] = NoDir] ELSE fin

(* ---- clear: rmtree(root, self=False) ---- *)
CList(p) == /\ pc[p] = "clist" /\ Step(p, "scandir-root") /\ UNCHANGED <<fin, tmp, res>>
            /\ LET all == {Name("f", k) : k \in {x \in 1..NK : fin[x].ex}} \cup {Name("t", q) : q \in {x \in 1..NP : tmp[x].ex}}
               IN loc' = [loc EXCEPT ![p].ls = SetToSeq(all), ![p].i = 1]
            /\ Goto(p, "cunlink")
CUnlink(p) == /\ pc[p] = "cunlink" /\ UNCHANGED <<loc, res>>
              /\ IF loc[p].i > Len(loc[p].ls) THEN UNCHANGED <<fin, tmp>> /\ Goto(p, "done") /\ Step(p, "end")
                 ELSE LET nm == loc[p].ls[loc[p].i]
                          inplace == "dir_delete_in_place" \in Deviations
                      IN /\ Step(p, IF inplace THEN "unlink" ELSE "rename-away") /\ Goto(p, "crmdir")
                         /\ IF nm[1] = "f" THEN fin' = [fin EXCEPT ![nm[2]] = IF inplace THEN [@ EXCEPT !.out = 0] ELSE NoDir] /\ tmp' = tmp
                            ELSE tmp' = [tmp EXCEPT ![nm[2]] = IF inplace THEN [@ EXCEPT !.out = 0] ELSE NoDir] /\ fin' = fin
CRmdir(p) == /\ pc[p] = "crmdir" /\ Step(p, "rmdir") /\ UNCHANGED res
             /\ LET nm == loc[p].ls[loc[p].i]
                IN IF nm[1] = "f" THEN /\ fin' = IF fin[nm[2]].ex /\ fin[nm[2]].out = 0 /\ "dir_delete_in_place" \in Deviations
                                                 THEN [fin EXCEPT ![nm[2]] = NoDir] ELSE fin
                                       /\ tmp' = tmp
                   ELSE /\ tmp' = IF tmp[nm[2]].ex /\ tmp[nm[2]].out = 0 /\ "dir_delete_in_place" \in Deviations
                                  THEN [tmp EXCEPT ![nm[2]] = NoDir] ELSE tmp
                        /\ fin' = fin
             /\ loc' = [loc EXCEPT ![p].i = @ + 1] /\ Goto(p, "cunlink")

(* ---- readers ---- *)
Open(p) == /\ pc[p] = "open" /\ Step(p, "open") /\ UNCHANGED <<fin, tmp, loc>>
           /\ LET d == fin[Ops[p].k]
              IN IF d.ex /\ d.out > 0 THEN Finish(p, [NoRes EXCEPT !.i = d.out]) ELSE Finish(p, KeyErr)
List(p) == /\ pc[p] = "list" /\ Step(p, "scandir-root") /\ UNCHANGED <<fin, tmp>>
           /\ IF Ops[p].t = "len" THEN loc' = loc /\ Finish(p, [NoRes EXCEPT !.i = Cardinality(Listing)])
              ELSE /\ loc' = [loc EXCEPT ![p].ls = SetToSeq(Listing), ![p].i = 1] /\ res' = res /\ Goto(p, "hasinput")
\* _getkey: scandir the entry for a stored input; (keys here are directory names: the name is the key)
HasInput(p) == /\ pc[p] = "hasinput" /\ UNCHANGED <<fin, tmp, res>>
               /\ IF loc[p].i > Len(loc[p].ls)
                  THEN /\ Step(p, "end-keys")
                       /\ IF Ops[p].t = "keys"
                          THEN /\ res' = res /\ loc' = loc
                               /\ pc' = [pc EXCEPT ![p] = "keysdone"]
                          ELSE loc' = [loc EXCEPT ![p].i = 1] /\ Goto(p, "lookup")
                  ELSE Step(p, "scandir") /\ loc' = [loc EXCEPT ![p].i = @ + 1] /\ UNCHANGED pc
KeysDone(p) == /\ pc[p] = "keysdone" /\ UNCHANGED <<fin, tmp, loc, sched>>
               /\ Finish(p, [NoRes EXCEPT !.m = [k \in 1..NK |-> IF Name("f", k) \in ToSet(loc[p].ls) THEN 1 ELSE 0],
                                          !.i = IF \E x \in ToSet(loc[p].ls) : x[1] = "t" THEN -7 ELSE 0])
Lookup(p) == /\ pc[p] = "lookup" /\ UNCHANGED <<fin, tmp>>
             /\ IF loc[p].i > Len(loc[p].ls)
                THEN Step(p, "end-items") /\ loc' = loc /\ Finish(p, [NoRes EXCEPT !.m = loc[p].acc])
                ELSE LET nm == loc[p].ls[loc[p].i]
                         d  == DirOf(nm)
                     IN /\ Step(p, "open")
                        /\ IF d.ex /\ d.out > 0
                           THEN /\ loc' = [loc EXCEPT ![p].i = @ + 1,
                                                      ![p].acc = IF nm[1] = "f" THEN [@ EXCEPT ![nm[2]] = d.out] ELSE @]
                                /\ res' = [res EXCEPT ![p].i = IF nm[1] = "t" THEN -7 ELSE @] /\ UNCHANGED pc
                           ELSE IF "asdict_keyerror_escapes" \in Deviations
                                THEN loc' = loc /\ Finish(p, KeyErr)       \* the KeyError of _lookup escapes from __asdict__
                                ELSE loc' = [loc EXCEPT ![p].i = @ + 1] /\ UNCHANGED <<res, pc>>   \* (idealised: an entry that vanished is skipped)

Kill(p) == /\ CRASH /\ pc[p] # "done" /\ ~dead[p]
           /\ dead' = [dead EXCEPT ![p] = TRUE] /\ Goto(p, "done") /\ Step(p, "KILL")
           /\ UNCHANGED <<fin, tmp, loc, res>>

Act(p) == \/ Mkdir(p) \/ Creat(p) \/ Write(p) \/ Close(p) \/ Scan(p) \/ Away(p) \/ Unlink(p) \/ Rmdir(p) \/ Rename(p) \/ Prune(p)
          \/ Stat(p) \/ PopRead(p) \/ DelAway(p) \/ DScan(p) \/ DUnlink(p) \/ DRmdir(p)
          \/ CList(p) \/ CUnlink(p) \/ CRmdir(p) \/ Open(p) \/ List(p) \/ HasInput(p) \/ KeysDone(p) \/ Lookup(p)
Next == \E p \in 1..NP : (Act(p) /\ UNCHANGED dead) \/ Kill(p)
Spec == Init /\ [][Next]_vars
View == <<fin, tmp, pc, loc, res, dead>>

(* ---- what a fresh process reports once everybody has finished or died ---- *)
Quiet == \A p \in 1..NP : pc[p] = "done"
FinalView ==
  LET names == Listing
      phantom == \E x \in names : x[1] = "t"
      keyseq == SetToSeq({k \in 1..NK : fin[k].ex}) \o (IF phantom THEN <<-7>> ELSE <<>>)
      readable == \A x \in names : DirOf(x).out > 0
      m == [k \in 1..NK |-> IF fin[k].ex THEN fin[k].out ELSE 0]
  IN [lenok |-> TRUE, len |-> Cardinality(names), keysok |-> TRUE, keys |-> keyseq,
      itemsok |-> readable, items |-> IF readable THEN m ELSE EmptyMap(NK),
      loadok |-> readable, load |-> IF readable THEN m ELSE EmptyMap(NK)]

\* C13 on the model: exactly one writer, possibly killed
AtomicOK == (CRASH /\ Quiet /\ NP = 1) => FailedCrash({"C13"}, Sc.init, Ops[1], FinalView) = {}
\* C14 on the model
ConcOK == (~CRASH /\ Quiet) => FailedConc({"C14"}, FALSE, Sc.init, Ops, res, FinalView) = {}
=============================================================================

------------------------------- MODULE SqlFS -------------------------------
(***************************************************************************)
(* Layer I for the sqlite sqltable_archive as a shared durable store, at   *)
(* SQL-statement granularity (klepto/_archives.py, the sqlite3 fallback).  *)
(* A data-changing statement and its COMMIT are one atomic step - SQLite's *)
(* atomic commit is an ASSUMPTION of this module; C13's kill enumeration   *)
(* tests it on the real file at system-call granularity.                   *)
(*                                                                         *)
(*  __setitem__   INSERT (k, v); COMMIT           (rows are history: reads *)
(*                                                  take the last row)     *)
(*  pop / del     SELECT k  -> KeyError if none;  DELETE k; COMMIT         *)
(*  clear         SELECT keys; then pop(k) for every key listed - a key    *)
(*                that vanished meanwhile raises KeyError out of clear()   *)
(*  update        one INSERT + COMMIT per key                              *)
(*  __getitem__ / __contains__   SELECT k                                  *)
(*  __len__, __asdict__ (cache.load)   SELECT *                            *)
(*  keys()        SELECT keys                                              *)
(*  items()       SELECT keys, then SELECT k per key (KeyError escapes)    *)
(*                                                                         *)
(* tab[k] = the value of the last row for key k (0 = no row).              *)
(* Named deviations (the code as it is):                                   *)
(*   "items_select_per_key"   items() looks every listed key up with its   *)
(*                            own statement (off = one SELECT of all)     *)
(*   "clear_pops_listed_keys" clear() pops the keys it listed one by one   *)
(*                            (off = one DELETE of everything)             *)
(***************************************************************************)
EXTENDS FsP

CONSTANTS NK, SCEN, CRASH, Deviations

Op(t, k, v)          == [t |-> t, k |-> k, v |-> v, k2 |-> 1, v2 |-> 0]
Op2(t, k, v, k2, v2) == [t |-> t, k |-> k, v |-> v, k2 |-> k2, v2 |-> v2]
Scenario(i) ==
  CASE i = 1  -> [init |-> <<0, 0>>,  ops |-> <<Op("set", 1, 11)>>]
    [] i = 2  -> [init |-> <<10, 20>>, ops |-> <<Op("set", 1, 11)>>]
    [] i = 3  -> [init |-> <<10, 20>>, ops |-> <<Op("del", 1, 0)>>]
    [] i = 4  -> [init |-> <<10, 20>>, ops |-> <<Op("pop", 1, 0)>>]
    [] i = 5  -> [init |-> <<10, 20>>, ops |-> <<Op("clear", 1, 0)>>]
    [] i = 6  -> [init |-> <<10, 0>>, ops |-> <<Op2("update", 1, 11, 2, 21)>>]
    [] i = 7  -> [init |-> <<10, 20>>, ops |-> <<Op("open", 1, 0)>>]
    [] i = 11 -> [init |-> <<0, 0>>,  ops |-> <<Op("set", 1, 11), Op("set", 2, 21)>>]
    [] i = 12 -> [init |-> <<10, 0>>, ops |-> <<Op("set", 2, 21), Op("get", 1, 0)>>]
    [] i = 13 -> [init |-> <<10, 0>>, ops |-> <<Op("set", 2, 21), Op("keys", 1, 0)>>]
    [] i = 14 -> [init |-> <<10, 0>>, ops |-> <<Op("set", 2, 21), Op("items", 1, 0)>>]
    [] i = 15 -> [init |-> <<10, 0>>, ops |-> <<Op("set", 2, 21), Op("len", 1, 0)>>]
    [] i = 16 -> [init |-> <<10, 0>>, ops |-> <<Op("set", 1, 11), Op("get", 1, 0)>>]
    [] i = 17 -> [init |-> <<10, 0>>, ops |-> <<Op("set", 1, 11), Op("items", 1, 0)>>]
    [] i = 18 -> [init |-> <<10, 20>>, ops |-> <<Op("del", 1, 0), Op("items", 1, 0)>>]
    [] i = 19 -> [init |-> <<10, 0>>, ops |-> <<Op("set", 1, 11), Op("contains", 1, 0)>>]
    [] i = 20 -> [init |-> <<10, 0>>, ops |-> <<Op("set", 2, 21), Op("load", 1, 0)>>]
    [] i = 21 -> [init |-> <<10, 20>>, ops |-> <<Op("del", 1, 0), Op("set", 2, 21)>>]
    [] i = 22 -> [init |-> <<0, 0>>, ops |-> <<Op("set", 1, 11), Op("set", 2, 21), Op("items", 1, 0)>>]
    [] i = 26 -> [init |-> <<10, 20>>, ops |-> <<Op("clear", 1, 0), Op("del", 2, 0)>>]
    \* a process that merely opens the archive while another one writes / overwrites (opening does nothing to the store)
    [] i = 23 -> [init |-> <<10, 0>>, ops |-> <<Op("set", 2, 21), Op("open", 1, 0)>>]
    [] i = 25 -> [init |-> <<10, 0>>, ops |-> <<Op("set", 1, 11), Op("open", 1, 0)>>]
    [] i = 27 -> [init |-> <<0, 0>>, ops |-> <<Op("set", 1, 11), Op("set", 1, 12)>>]
    [] i = 28 -> [init |-> <<10, 0>>, ops |-> <<Op("set", 1, 11), Op("set", 1, 12)>>]
    \* a membership test (on a key with a history), after which that process keeps its handle and stays idle while
    \* another process stores a different key
    [] i = 29 -> [init |-> <<10, 0>>, ops |-> <<Op("contains", 1, 0), Op("set", 2, 21)>>]
    [] OTHER -> [init |-> <<0, 0>>, ops |-> <<Op("len", 1, 0)>>]
Sc == Scenario(SCEN)
NP == Len(Sc.ops)
Ops == Sc.ops

VARIABLES tab, pc, loc, res, dead, sched
vars == <<tab, pc, loc, res, dead, sched>>
View == <<tab, pc, loc, res, dead>>
NoRes == [ok |-> TRUE, exc |-> "none", i |-> 0, m |-> EmptyMap(NK)]
KeyErr == [NoRes EXCEPT !.ok = FALSE, !.exc = "KeyError"]
RECURSIVE SetToSeq(_)
SetToSeq(S) == IF S = {} THEN <<>> ELSE LET x == CHOOSE y \in S : TRUE IN <<x>> \o SetToSeq(S \ {x})

Start(o) == CASE o.t \in {"set", "update", "dump"} -> "insert"
              [] o.t \in {"del", "pop"} -> "select"
              [] o.t = "clear" -> IF "clear_pops_listed_keys" \in Deviations THEN "selkeys" ELSE "delall"
              [] o.t \in {"get", "contains"} -> "select"
              [] o.t \in {"len", "load"} -> "selall"
              [] o.t = "keys" -> "selkeys"
              [] o.t = "items" -> IF "items_select_per_key" \in Deviations THEN "selkeys" ELSE "selall"
              [] OTHER -> "done"
Init == /\ tab = Sc.init
        /\ pc = [p \in 1..NP |-> Start(Ops[p])]
        /\ loc = [p \in 1..NP |-> [ks |-> <<>>, acc |-> EmptyMap(NK), ph |-> 1]]
        /\ res = [p \in 1..NP |-> NoRes]
        /\ dead = [p \in 1..NP |-> FALSE]
        /\ sched = <<>>
Goto(p, l) == pc' = [pc EXCEPT ![p] = l]
Step(p, label) == sched' = Append(sched, <<p, label>>)
Finish(p, r) == /\ res' = [res EXCEPT ![p] = r] /\ Goto(p, "done")

Insert(p) == /\ pc[p] = "insert" /\ Step(p, "exec-insert") /\ UNCHANGED res
             /\ LET k == IF loc[p].ph = 1 THEN Ops[p].k ELSE Ops[p].k2
                    v == IF loc[p].ph = 1 THEN Ops[p].v ELSE Ops[p].v2
                IN tab' = [tab EXCEPT ![k] = v]
             /\ IF Ops[p].t \in {"update", "dump"} /\ loc[p].ph = 1
                THEN loc' = [loc EXCEPT ![p].ph = 2] /\ UNCHANGED pc
                ELSE loc' = loc /\ Goto(p, "done")
Select(p) == /\ pc[p] = "select" /\ Step(p, "exec-select") /\ UNCHANGED <<tab, loc>>
             /\ LET o == Ops[p]
                IN CASE o.t = "get" -> IF tab[o.k] # 0 THEN Finish(p, [NoRes EXCEPT !.i = tab[o.k]]) ELSE Finish(p, KeyErr)
                     [] o.t = "contains" -> Finish(p, [NoRes EXCEPT !.i = IF tab[o.k] # 0 THEN 1 ELSE 0])
                     [] OTHER -> IF tab[o.k] # 0 THEN res' = [res EXCEPT ![p].i = IF o.t = "pop" THEN tab[o.k] ELSE 0] /\ Goto(p, "delete")
                                 ELSE Finish(p, KeyErr)
Delete(p) == /\ pc[p] = "delete" /\ Step(p, "exec-delete") /\ tab' = [tab EXCEPT ![Ops[p].k] = 0]
             /\ UNCHANGED <<loc, res>> /\ Goto(p, "done")
SelAll(p) == /\ pc[p] = "selall" /\ Step(p, "exec-select") /\ UNCHANGED <<tab, loc>>
             /\ IF Ops[p].t = "len" THEN Finish(p, [NoRes EXCEPT !.i = Cardinality(Dom(tab))])
                ELSE Finish(p, [NoRes EXCEPT !.m = tab])
SelKeys(p) == /\ pc[p] = "selkeys" /\ Step(p, "exec-select") /\ UNCHANGED tab
              /\ IF Ops[p].t = "keys" THEN loc' = loc /\ Finish(p, [NoRes EXCEPT !.m = [k \in 1..NK |-> IF tab[k] # 0 THEN 1 ELSE 0]])
                 ELSE loc' = [loc EXCEPT ![p].ks = SetToSeq(Dom(tab))] /\ res' = res
                      /\ Goto(p, IF Ops[p].t = "clear" THEN "cselect" ELSE "iselect")
\* items(): one SELECT per listed key
ISelect(p) == /\ pc[p] = "iselect" /\ UNCHANGED tab
              /\ IF loc[p].ks = <<>> THEN Step(p, "end-items") /\ loc' = loc /\ Finish(p, [NoRes EXCEPT !.m = loc[p].acc])
                 ELSE LET k == Head(loc[p].ks)
                      IN /\ Step(p, "exec-select")
                         /\ IF tab[k] # 0 THEN loc' = [loc EXCEPT ![p].ks = Tail(@), ![p].acc = [@ EXCEPT ![k] = tab[k]]] /\ UNCHANGED <<res, pc>>
                            ELSE loc' = loc /\ Finish(p, KeyErr)
\* clear(): pop(k) for every listed key
CSelect(p) == /\ pc[p] = "cselect" /\ UNCHANGED <<tab, loc>>
              /\ IF loc[p].ks = <<>> THEN Step(p, "end-clear") /\ Finish(p, NoRes)
                 ELSE /\ Step(p, "exec-select")
                      /\ IF tab[Head(loc[p].ks)] # 0 THEN res' = res /\ Goto(p, "cdelete") ELSE Finish(p, KeyErr)
CDelete(p) == /\ pc[p] = "cdelete" /\ Step(p, "exec-delete") /\ tab' = [tab EXCEPT ![Head(loc[p].ks)] = 0]
              /\ loc' = [loc EXCEPT ![p].ks = Tail(@)] /\ UNCHANGED res /\ Goto(p, "cselect")
DelAll(p) == /\ pc[p] = "delall" /\ Step(p, "exec-delete") /\ tab' = EmptyMap(NK) /\ UNCHANGED <<loc, res>> /\ Goto(p, "done")
Kill(p) == /\ CRASH /\ pc[p] # "done" /\ ~dead[p]
           /\ dead' = [dead EXCEPT ![p] = TRUE] /\ Goto(p, "done") /\ Step(p, "KILL") /\ UNCHANGED <<tab, loc, res>>
Act(p) == Insert(p) \/ Select(p) \/ Delete(p) \/ DelAll(p) \/ SelAll(p) \/ SelKeys(p) \/ ISelect(p) \/ CSelect(p) \/ CDelete(p)
Next == \E p \in 1..NP : (Act(p) /\ UNCHANGED dead) \/ Kill(p)
Spec == Init /\ [][Next]_vars

Quiet == \A p \in 1..NP : pc[p] = "done"
FinalView == [lenok |-> TRUE, len |-> Cardinality(Dom(tab)), keysok |-> TRUE, keys |-> SetToSeq(Dom(tab)),
              itemsok |-> TRUE, items |-> tab, loadok |-> TRUE, load |-> tab]
AtomicOK == (CRASH /\ Quiet /\ NP = 1) => FailedCrash({"C13"}, Sc.init, Ops[1], FinalView) = {}
ConcOK == (~CRASH /\ Quiet) => FailedConc({"C14"}, FALSE, Sc.init, Ops, res, FinalView) = {}
=============================================================================

------------------------------ MODULE PersistP ------------------------------
(***************************************************************************)
(* Layer P for persistence across handles and processes (property C04).    *)
(*                                                                         *)
(* One persistent location (a file, a directory or a table).  State        *)
(*   S = [c]   c[k] = value id stored for key id k (0 = absent): what has  *)
(*             been written, by whatever handle of whatever process.       *)
(* Events e (one per operation of a worker process, logged at its return): *)
(*   op     "open" / "write" / "writemut" (store, then mutate the stored   *)
(*          object) / "del" / "clear" / "read" / "rebuild" (a new handle   *)
(*          from the handle's reported state, from copy(), or by           *)
(*          unpickling its pickle - in the same or in another process) /   *)
(*          "decorate" (a cached function re-created on the location and   *)
(*          called for key k) / "tick" / "exit"                            *)
(*   p, h   process and handle; k, v key / value ids                       *)
(*   seen   the contents read through handle h after the operation         *)
(*          (every operation reports what its handle now sees)             *)
(*   same   rebuild: the new handle reports the same location and settings *)
(*   kind   decorate: "hit" / "load" / "miss"; evals: evaluations made     *)
(*   exc    exception class name or "none"                                 *)
(***************************************************************************)
EXTENDS Naturals, Integers, Sequences, FiniteSets, TLC

Chk(props, p, name, cond) == IF p \notin props THEN {} ELSE IF cond THEN {} ELSE {<<p, name>>}
Names2(failed) == {x[2] : x \in failed}
EmptyMap(n) == [k \in 1..n |-> 0]

Exp(S, e) ==
  CASE e.op \in {"write", "writemut"} -> [c |-> [S.c EXCEPT ![e.k] = e.v]]
    [] e.op = "del"   -> [c |-> [S.c EXCEPT ![e.k] = 0]]
    [] e.op = "clear" -> [c |-> EmptyMap(Len(S.c))]
    \* a function re-created on the archive and called for a key that is not there computes and stores it
    [] e.op = "decorate" -> [c |-> IF S.c[e.k] = 0 THEN [S.c EXCEPT ![e.k] = e.v] ELSE S.c]
    [] OTHER -> S

Failed(props, S, e) ==
  LET x == Exp(S, e)
      reads == e.op \in {"open", "write", "writemut", "del", "clear", "read", "rebuild", "decorate"}
  IN   Chk(props, "C04", "C04.NoError", e.exc = "none" \/ (e.op = "del" /\ S.c[e.k] = 0 /\ e.exc = "KeyError"))
  \cup Chk(props, "C04", "C04.EveryHandleSeesWhatWasWritten", (reads /\ e.exc = "none") => e.seen = x.c)
  \cup Chk(props, "C04", "C04.RebuiltHandleSameStoreAndSettings", (e.op = "rebuild" /\ e.exc = "none") => e.same)
  \cup Chk(props, "C04", "C04.RedecoratedFunctionServedFromArchive", (e.op = "decorate" /\ e.exc = "none") =>
             IF S.c[e.k] # 0 THEN e.kind \in {"load", "hit"} /\ e.evals = 0 /\ e.ret = S.c[e.k]
             ELSE e.kind = "miss" /\ e.evals = 1)

Adopt(S, e) == IF e.exc = "none" THEN Exp(S, e) ELSE S
=============================================================================

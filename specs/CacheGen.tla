------------------------------ MODULE CacheGen ------------------------------
(***************************************************************************)
(* Behaviour generation from layer I (B2: spec -> code).  Every complete   *)
(* walk (n = DEPTH) prints its operation history and the model's own       *)
(* prediction of the observable state after each step as one JSON line;    *)
(* harness/cache_checks.py replays the operations on the real decorator,   *)
(* validates the recorded trace against layer P and compares the real      *)
(* state with the prediction (a difference that layer P accepts is         *)
(* MODEL-DRIFT, not a violation).                                          *)
(* Use with -simulate (random walks) or exhaustively with hist in the      *)
(* state (no VIEW): all operation sequences of length DEPTH.               *)
(***************************************************************************)
EXTENDS CacheImpl, Json

VARIABLE pred          \* predicted observable state after each step
gvars == <<vars, pred>>

GInit == Init /\ pred = <<>>
GNext == Next /\ pred' = IF n' > n
                          THEN Append(pred, [mem |-> mem', arch |-> archs', cur |-> cur', stats |-> stats',
                                             ret |-> last'.ret, exc |-> last'.exc])
                          ELSE pred
GSpec == GInit /\ [][GNext]_gvars

Emit == (n = DEPTH /\ stack = <<>>) => PrintT(<<"HIST", ToJson([ops |-> hist, pred |-> pred])>>)
=============================================================================

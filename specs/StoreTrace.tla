----------------------------- MODULE StoreTrace -----------------------------
(* trace validation of real klepto.archives.cache executions against StoreP (total: see CacheTrace) *)
EXTENDS StoreP, Json, IOUtils, TLCExt
CONSTANT Props
J == JsonDeserialize(IOEnv.TRACE_FILE)
T == J.traces
VARIABLES tid, l, S, rej
vars == <<tid, l, S, rej>>
TraceInit == /\ tid \in 1..Len(T) /\ l = 0 /\ rej = {}
             /\ S = [mem |-> T[tid].init.mem, archs |-> T[tid].init.archs, cur |-> T[tid].init.cur, parked |-> 0]
TraceNext ==
  /\ rej = {}
  /\ l < Len(T[tid].events)
  /\ LET e == T[tid].events[l + 1]
         nk == T[tid].cfg.nk
         na == T[tid].cfg.na
         bad == Failed(nk, na, S, e)
     IN IF bad = {} \/ "C08" \notin Props
        THEN /\ l' = l + 1 /\ S' = Adopt(nk, na, S, e) /\ UNCHANGED <<tid, rej>>
        ELSE /\ rej' = bad /\ PrintT(<<"REJECT", tid, l + 1, bad>>) /\ UNCHANGED <<tid, l, S>>
TraceSpec == TraceInit /\ [][TraceNext]_vars
=============================================================================

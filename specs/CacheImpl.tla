------------------------------ MODULE CacheImpl ------------------------------
(***************************************************************************)
(* Layer I: implementation-shaped model of one klepto cache decorator      *)
(* instance (klepto/_cache.py, klepto/safe.py) on top of the               *)
(* klepto.archives.cache dictionary (klepto/_archives.py:129-238).         *)
(*                                                                         *)
(* One action per public operation (the library is sequential: the         *)
(* linearization point is the return of the call).  The bookkeeping is the *)
(* code's: deque + refcount + compaction for LRU, insertion-ordered        *)
(* Counter + stable nsmallest(max(2, maxsize/10)) for LFU, deque with      *)
(* pop() before the append for MRU, random.choice for RR, the              *)
(* __archive__/__swap__ juggling of archived().                            *)
(*                                                                         *)
(* Deviations of the pinned code from layer P are NAMED: a name in the     *)
(* constant Deviations switches the pinned (defective) behaviour on; with  *)
(* Deviations = {} the model describes the repaired code and must refine   *)
(* layer P (property Refines).                                             *)
(***************************************************************************)
EXTENDS CacheP

CONSTANTS ALG,         \* declared decorator: "no" "inf" "lfu" "lru" "mru" "rr"
          MAXSIZE,     \* declared maxsize, -1 = None
          PURGE,       \* BOOLEAN
          SAFE,        \* BOOLEAN: klepto.safe variant
          QMULT,       \* maxqueue = maxsize * QMULT (10 in the code)
          NX,          \* number of normal bindings
          ARGS,        \* argument ids used by Next
          OPS,         \* operation names used by Next
          NARCH,       \* 0: no archive, 1: one archive bound at start, 2: plus a spare one
          DEPTH,       \* bound on the number of steps
          Deviations,
          Props,       \* properties whose clauses Refines checks
          MAXNEST,     \* re-entrancy: how deep the wrapped function may call the decorated function again while it
                       \* is being evaluated (0 = never; "nest" \in OPS switches the two-phase calls on)
          UNKEYAT      \* where an unkeyable argument fails in a safe decorator: "keymap" (the key cannot be built:
                       \* the wrapper evaluates and returns at once) or "lookup" (the raw key is built but is
                       \* unhashable: the dictionary lookup fails and the rest of the wrapper still runs)

(* argument alphabet - identical to harness/cache_driver.alphabet(NX) *)
NArgs   == NX + 5 + (IF SAFE THEN 2 ELSE 0)
KeyOf   == [a \in 1..NArgs |->
              IF a <= NX THEN a
              ELSE IF a = NX + 1 THEN 1 ELSE IF a = NX + 2 THEN 2 ELSE IF a = NX + 3 THEN 1
              ELSE IF a = NX + 4 THEN NX + 1 ELSE IF a = NX + 5 THEN NX + 2 ELSE IF a = NX + 6 THEN 1 ELSE NX + 1]
KindOf  == [a \in 1..NArgs |->
              IF a <= NX + 3 THEN "ok" ELSE IF a <= NX + 5 THEN "raise" ELSE IF a = NX + 6 THEN "unkey" ELSE "unkeyraise"]
ValOfKey(k) == IF k <= NX THEN 1000 + 10 * k ELSE -1
FOf     == [a \in 1..NArgs |->
              IF KindOf[a] = "ok" THEN ValOfKey(KeyOf[a]) ELSE IF KindOf[a] \in {"raise", "unkeyraise"} THEN 0 ELSE 1410]
NK      == NX + 3
NA      == 2

EffAlg  == IF ALG = "no" \/ MAXSIZE = 0 THEN "no"
           ELSE IF ALG = "inf" \/ MAXSIZE = -1 THEN "inf" ELSE ALG
EffMax  == IF EffAlg = "no" THEN 0 ELSE IF EffAlg = "inf" THEN -1 ELSE MAXSIZE

Cfg == [nk |-> NK, na |-> NA, ni |-> 1, keyof |-> KeyOf, f |-> FOf, kind |-> KindOf,
        fk |-> [k \in 1..NK |-> ValOfKey(k)],
        inst |-> <<[alg |-> EffAlg, maxsize |-> EffMax, purge |-> PURGE, safe |-> SAFE]>>]

VARIABLES mem,       \* the cache dict: key -> value (0 absent)
          archs,     \* archive contents, NA of them
          cur,       \* cache.__archive__: 0 = null_archive, else archive id
          swap,      \* cache.__swap__
          stats,     \* <<hit, miss, load>>
          queue,     \* LRU / MRU deque (left = index 1)
          refc,      \* LRU refcount (Counter: default 0, may go negative)
          ucnt,      \* LFU use_count values (0 = absent)
          uord,      \* LFU use_count insertion order (sequence of keys)
          g,         \* ghosts of layer P (recency, frequency, taint, parked)
          last,      \* the event produced by the last step (what the recorder would log)
          hist,      \* operation history (for behaviour generation)
          n,         \* number of events produced
          stack      \* calls that are inside the wrapped function right now (a recursive function): sequence of
                     \* [a |-> argument, kids |-> the calls completed inside it so far]; innermost last

obs  == <<mem, archs, cur, swap, stats, queue, refc, ucnt, uord, g>>
vars == <<mem, archs, cur, swap, stats, queue, refc, ucnt, uord, g, last, hist, n, stack>>
View == <<mem, archs, cur, swap, stats, queue, refc, ucnt, uord, g, n, [x \in 1..Len(stack) |-> stack[x].a]>>
ViewNoStats == <<mem, archs, cur, swap, queue, refc, ucnt, uord, g, n, [x \in 1..Len(stack) |-> stack[x].a]>>

Info(m, st) == <<st[1], st[2], st[3], EffMax, Size(m)>>
PState == [mem |-> <<mem>>, archs |-> archs, cur |-> <<cur>>, info |-> <<Info(mem, stats)>>, g |-> <<g>>]

Zero == EmptyMap(NK)
Arch(c) == IF c = 0 THEN Zero ELSE archs[c]
Archived(c) == c # 0

Init ==
  /\ mem = Zero
  /\ archs = <<Zero, Zero>>
  /\ cur = IF NARCH >= 1 THEN 1 ELSE 0
  /\ swap = 0
  /\ stats = <<0, 0, 0>>
  /\ queue = <<>>
  /\ refc = Zero
  /\ ucnt = Zero
  /\ uord = <<>>
  /\ g = Ghost0(Cfg)[1]
  /\ last = [op |-> "init"]
  /\ hist = <<>>
  /\ n = 0
  /\ stack = <<>>

-----------------------------------------------------------------------------
(* bookkeeping helpers *)

Bump(fn, k, d) == [fn EXCEPT ![k] = @ + d]
DelFirst(q, k) == IF k \in ToSet(q) THEN LET p == CHOOSE x \in 1..Len(q) : q[x] = k /\ \A y \in 1..(x-1) : q[y] # k
                                            IN SubSeq(q, 1, p - 1) \o SubSeq(q, p + 1, Len(q))
                     ELSE q

\* LRU victim search: popleft until a key whose refcount drops to zero
RECURSIVE LruPop(_, _)
LruPop(q, rc) ==
  IF q = <<>> THEN [ok |-> FALSE, key |-> 0, q |-> q, rc |-> rc]
  ELSE LET k == Head(q)
           rc2 == Bump(rc, k, -1)
       IN IF rc2[k] # 0 THEN LruPop(Tail(q), rc2)
          ELSE [ok |-> TRUE, key |-> k, q |-> Tail(q), rc |-> rc2]

\* compaction: distinct keys in order of their LAST occurrence
RECURSIVE Compact(_)
Compact(q) == IF q = <<>> THEN <<>>
              ELSE LET x == q[Len(q)]
                       rest == SelectSeq(SubSeq(q, 1, Len(q) - 1), LAMBDA y : y # x)
                   IN Compact(rest) \o <<x>>

\* stable nsmallest over the insertion-ordered use_count items
RECURSIVE NSmallest(_, _, _)
NSmallest(cnt, ord, m) ==
  IF m = 0 \/ ord = <<>> THEN <<>>
  ELSE LET best == CHOOSE p \in 1..Len(ord) :
                      /\ \A r \in 1..Len(ord) : cnt[ord[p]] <= cnt[ord[r]]
                      /\ \A r \in 1..(p-1) : cnt[ord[r]] > cnt[ord[p]]
       IN <<ord[best]>> \o NSmallest(cnt, SubSeq(ord, 1, best-1) \o SubSeq(ord, best+1, Len(ord)), m - 1)

Div(a, b) == a \div b
LfuN == MaxOf(2, Div(MAXSIZE, 10))

SetAt(m, k, v) == [m EXCEPT ![k] = v]
RemoveKeys(m, ks) == [k \in 1..NK |-> IF k \in ks THEN 0 ELSE m[k]]
DumpKeys(ar, m, ks) == [k \in 1..NK |-> IF k \in ks /\ m[k] # 0 THEN m[k] ELSE ar[k]]
WithArch(c, newcontent) == IF c = 0 THEN archs ELSE [archs EXCEPT ![c] = newcontent]

-----------------------------------------------------------------------------
(* The event the recorder logs for a step, from primed variables *)
Event(op, extra) ==
  [op |-> op, i |-> 1, mem |-> <<mem'>>, archs |-> archs', cur |-> <<cur'>>,
   info |-> <<Info(mem', stats')>>] @@ extra

\* The operation record of an event goes to the history - or, while a call is inside the wrapped function, to the
\* record of that enclosing call ("nest").  The event that completes the innermost pending call closes its frame.
Rec(e) == [x \in (DOMAIN e) \cap {"op", "a", "keys", "keep", "x", "clear"} |-> e[x]]
Finish(e) ==
  /\ last' = e
  /\ g' = GhostAfter(Cfg, PState, e)[1]
  /\ n' = n + 1
  /\ IF stack = <<>> THEN hist' = Append(hist, Rec(e)) /\ stack' = stack
     ELSE LET d   == Len(stack)
              top == stack[d]
          IN IF e.op = "call" /\ e.a = top.a            \* the pending call itself returns
             THEN LET r == Rec(e) @@ [nest |-> top.kids]
                  IN IF d = 1 THEN hist' = Append(hist, r) /\ stack' = <<>>
                     ELSE /\ hist' = hist
                          /\ stack' = [SubSeq(stack, 1, d - 1) EXCEPT ![d - 1].kids = Append(@, r)]
             ELSE hist' = hist /\ stack' = [stack EXCEPT ![d].kids = Append(@, Rec(e))]

NoExtra == [x \in {} |-> 0]
Ret(a, ret, exc, ev) == [a |-> a, ret |-> ret, exc |-> exc, ev |-> ev]

-----------------------------------------------------------------------------
(* f(args) *)

\* outcome of the eviction phase, common shape:
\* [mem, arch (content of bound archive), queue, refc, ucnt, uord, exc]
EvictLRU(m, ar, q, rc, k) ==
  LET r == LruPop(q, rc)
  IN IF ~r.ok THEN [mem |-> m, arch |-> ar, queue |-> r.q, refc |-> r.rc, exc |-> "IndexError"]
     ELSE [mem |-> RemoveKeys(m, {r.key}),
           arch |-> IF Archived(cur) THEN DumpKeys(ar, m, {r.key}) ELSE ar,
           queue |-> r.q, refc |-> SetAt(r.rc, r.key, 0), exc |-> "none"]

CallBounded(a) ==
  LET k     == KeyOf[a]
      ar    == Arch(cur)
      hit   == mem[k] # 0
      m1    == IF ~hit /\ Archived(cur) /\ ar[k] # 0 THEN SetAt(mem, k, ar[k]) ELSE mem
      load  == ~hit /\ m1[k] # 0
      raise == ~hit /\ ~load /\ KindOf[a] = "raise"
      m2    == IF hit \/ load THEN m1 ELSE SetAt(m1, k, FOf[a])
      res   == m2[k]
      over  == ~hit /\ EffAlg # "inf" /\ Size(m2) > MAXSIZE
      purge == over /\ Archived(cur) /\ PURGE
      st2   == IF hit THEN Bump(stats, 1, 1) ELSE IF load THEN Bump(stats, 3, 1) ELSE Bump(stats, 2, 1)
      evs   == IF hit \/ load THEN <<>> ELSE <<a>>
  IN
  IF raise THEN
     /\ UNCHANGED <<mem, archs, cur, swap, stats, queue, refc, ucnt, uord>>
     /\ Finish(Event("call", Ret(a, 0, "same", <<a>>)))
  ELSE
  CASE EffAlg = "inf" ->
       /\ mem' = m2 /\ stats' = st2
       /\ UNCHANGED <<archs, cur, swap, queue, refc, ucnt, uord>>
       /\ Finish(Event("call", Ret(a, res, "none", evs)))
  [] EffAlg = "lru" ->
       LET q1  == Append(queue, k)
           rc1 == Bump(refc, k, 1)
           ev  == IF purge THEN [mem |-> Zero, arch |-> Overlay(ar, m2), queue |-> <<>>, refc |-> Zero, exc |-> "none"]
                  ELSE IF over THEN EvictLRU(m2, ar, q1, rc1, k)
                  ELSE [mem |-> m2, arch |-> ar, queue |-> q1, refc |-> rc1, exc |-> "none"]
           compact == ev.exc = "none" /\ Len(ev.queue) > MAXSIZE * QMULT
           q3  == IF compact THEN Compact(ev.queue) ELSE ev.queue
           rc3 == IF compact THEN [kk \in 1..NK |-> IF kk \in ToSet(q3) THEN 1 ELSE 0] ELSE ev.refc
       IN /\ mem' = ev.mem /\ archs' = WithArch(cur, ev.arch) /\ queue' = q3 /\ refc' = rc3
          /\ stats' = st2
          /\ UNCHANGED <<cur, swap, ucnt, uord>>
          /\ Finish(Event("call", Ret(a, IF ev.exc = "none" THEN res ELSE 0, ev.exc, evs)))
  [] EffAlg = "mru" ->
       LET q1  == IF hit THEN DelFirst(queue, k) ELSE queue
           popk == IF q1 # <<>> THEN q1[Len(q1)] ELSE IF "mru_pop_empty" \in Deviations THEN 0 ELSE k
           q2  == IF over /\ ~purge /\ q1 # <<>> THEN SubSeq(q1, 1, Len(q1) - 1) ELSE q1
           exc == IF over /\ ~purge /\ popk = 0 THEN "IndexError" ELSE "none"
           m3  == IF purge THEN Zero ELSE IF over /\ exc = "none" THEN RemoveKeys(m2, {popk}) ELSE m2
           ar3 == IF purge THEN Overlay(ar, m2)
                  ELSE IF over /\ exc = "none" /\ Archived(cur) THEN DumpKeys(ar, m2, {popk}) ELSE ar
           q3  == IF purge THEN <<>> ELSE q2
       IN /\ mem' = m3 /\ archs' = WithArch(cur, ar3)
          /\ queue' = IF exc = "none" /\ ~(over /\ ~purge /\ q1 = <<>>)
                          /\ (~purge \/ "mru_purge_leaves_stale_use" \in Deviations)
                       THEN Append(q3, k) ELSE q3
          /\ stats' = st2
          /\ UNCHANGED <<cur, swap, refc, ucnt, uord>>
          /\ Finish(Event("call", Ret(a, IF exc = "none" THEN res ELSE 0, exc, evs)))
  [] EffAlg = "lfu" ->
       LET uc1 == Bump(ucnt, k, 1)
           uo1 == IF ucnt[k] = 0 THEN Append(uord, k) ELSE uord
           vs  == IF over /\ ~purge THEN NSmallest(uc1, uo1, LfuN) ELSE <<>>
           V   == ToSet(vs)
           m3  == IF purge THEN Zero ELSE RemoveKeys(m2, V)
           ar3 == IF purge THEN Overlay(ar, m2)
                  ELSE IF Archived(cur) THEN DumpKeys(ar, m2, V) ELSE ar
       IN /\ mem' = m3 /\ archs' = WithArch(cur, ar3)
          /\ ucnt' = IF purge THEN Zero ELSE RemoveKeys(uc1, V)
          /\ uord' = IF purge THEN <<>> ELSE SelectSeq(uo1, LAMBDA y : y \notin V)
          /\ stats' = st2
          /\ UNCHANGED <<cur, swap, queue, refc>>
          /\ Finish(Event("call", Ret(a, res, "none", evs)))
  [] EffAlg = "rr" ->
       IF over /\ ~purge
       THEN \E v \in Dom(m2) :
              /\ mem' = RemoveKeys(m2, {v})
              /\ archs' = WithArch(cur, IF Archived(cur) THEN DumpKeys(ar, m2, {v}) ELSE ar)
              /\ stats' = st2
              /\ UNCHANGED <<cur, swap, queue, refc, ucnt, uord>>
              /\ Finish(Event("call", Ret(a, res, "none", evs)))
       ELSE /\ mem' = IF purge THEN Zero ELSE m2
            /\ archs' = WithArch(cur, IF purge THEN Overlay(ar, m2) ELSE ar)
            /\ stats' = st2
            /\ UNCHANGED <<cur, swap, queue, refc, ucnt, uord>>
            /\ Finish(Event("call", Ret(a, res, "none", evs)))

CallNo(a) ==   \* no_cache: look in archive, compute, dump everything, clear
  LET k     == KeyOf[a]
      ar    == Arch(cur)
      m1    == IF Archived(cur) /\ ar[k] # 0 THEN SetAt(mem, k, ar[k]) ELSE mem
      load  == m1[k] # 0
      raise == ~load /\ KindOf[a] = "raise"
      m2    == IF load THEN Zero ELSE SetAt(m1, k, FOf[a])
      res   == IF load THEN m1[k] ELSE FOf[a]
      ar2   == IF Archived(cur) /\ Size(m2) > 0 THEN Overlay(ar, m2) ELSE ar
  IN IF raise THEN
       /\ UNCHANGED <<mem, archs, cur, swap, stats, queue, refc, ucnt, uord>>
       /\ Finish(Event("call", Ret(a, 0, "same", <<a>>)))
     ELSE
       /\ mem' = Zero
       /\ archs' = WithArch(cur, ar2)
       /\ stats' = IF load THEN Bump(stats, 3, 1) ELSE Bump(stats, 2, 1)
       /\ UNCHANGED <<cur, swap, queue, refc, ucnt, uord>>
       /\ Finish(Event("call", Ret(a, res, "none", IF load THEN <<>> ELSE <<a>>)))

CallUnkey(a) ==  \* safe decorators: arguments that cannot be keyed -> plain evaluation
  /\ SAFE
  /\ IF KindOf[a] = "unkeyraise"         \* the plain evaluation raises: nothing has been counted or changed
     THEN /\ UNCHANGED <<mem, archs, cur, swap, stats, queue, refc, ucnt, uord>>
          /\ Finish(Event("call", Ret(a, 0, "same", <<a>>)))
     ELSE
     IF EffAlg = "no" /\ Archived(cur) /\ "safe_no_load_outside_try" \in Deviations
     THEN /\ UNCHANGED <<mem, archs, cur, swap, stats, queue, refc, ucnt, uord>>
          /\ Finish(Event("call", Ret(a, 0, "TypeError", <<>>)))
     ELSE /\ stats' = Bump(stats, 2, 1)
          /\ IF EffAlg = "no" /\ Size(mem) > 0 /\ UNKEYAT = "lookup"
             THEN /\ mem' = Zero                                    \* the trailing purge block still runs
                  /\ archs' = WithArch(cur, IF Archived(cur) THEN Overlay(Arch(cur), mem) ELSE Arch(cur))
             ELSE UNCHANGED <<mem, archs>>
          /\ UNCHANGED <<cur, swap, queue, refc, ucnt, uord>>
          /\ Finish(Event("call", Ret(a, FOf[a], "none", <<a>>)))

CallNow(a) == IF KindOf[a] \in {"unkey", "unkeyraise"} THEN CallUnkey(a)
              ELSE IF EffAlg = "no" THEN CallNo(a) ELSE CallBounded(a)

(* Re-entrancy.  The wrapper looks the key up, and only when it is neither resident nor archived does it run the  *)
(* wrapped function - which may call the decorated function again (a memoized recursive function) - before any    *)
(* bookkeeping: nothing is recorded until the function returns.  Enter(a) is that first phase (no event, no       *)
(* change); the second phase is CallNow(a) taken when a is the innermost pending call: the lookup parts of        *)
(* CallNow find exactly what Enter found (no pending call shares a key, so nothing can have stored it meanwhile). *)
Nesting  == "nest" \in OPS /\ MAXNEST > 0
WouldRun(a) == KindOf[a] \notin {"unkey", "unkeyraise"} /\ mem[KeyOf[a]] = 0 /\ ~(Archived(cur) /\ Arch(cur)[KeyOf[a]] # 0)
Pending  == {KeyOf[stack[x].a] : x \in 1..Len(stack)}
Enter(a) == /\ Nesting /\ WouldRun(a) /\ KeyOf[a] \notin Pending
            /\ Len(stack) < MAXNEST /\ n + Len(stack) + 1 < DEPTH
            /\ stack' = Append(stack, [a |-> a, kids |-> <<>>])
            /\ UNCHANGED <<mem, archs, cur, swap, stats, queue, refc, ucnt, uord, g, last, hist, n>>
Return   == stack # <<>> /\ CallNow(stack[Len(stack)].a)
Call(a)  == IF Nesting /\ WouldRun(a)
            THEN Enter(a)
            ELSE KeyOf[a] \notin Pending /\ CallNow(a)       \* answered without running the function (or nesting is off)

-----------------------------------------------------------------------------
(* management operations: klepto.archives.cache methods re-exported on the wrapper *)

Quiet(op, extra) == Finish(Event(op, [ret |-> 0, exc |-> "none", ev |-> <<>>] @@ extra))

Load ==
  /\ mem' = Overlay(mem, Arch(cur))
  /\ UNCHANGED <<archs, cur, swap, stats, queue, refc, ucnt, uord>>
  /\ Quiet("load", NoExtra)

LoadK(ks) ==
  /\ mem' = [k \in 1..NK |-> IF k \in ToSet(ks) /\ Arch(cur)[k] # 0 THEN Arch(cur)[k] ELSE mem[k]]
  /\ UNCHANGED <<archs, cur, swap, stats, queue, refc, ucnt, uord>>
  /\ Quiet("loadk", [keys |-> ks])

Dump ==
  /\ archs' = WithArch(cur, Overlay(Arch(cur), mem))
  /\ UNCHANGED <<mem, cur, swap, stats, queue, refc, ucnt, uord>>
  /\ Quiet("dump", NoExtra)

DumpK(ks) ==
  /\ archs' = WithArch(cur, DumpKeys(Arch(cur), mem, ToSet(ks)))
  /\ UNCHANGED <<mem, cur, swap, stats, queue, refc, ucnt, uord>>
  /\ Quiet("dumpk", [keys |-> ks])

Sync(clear) ==   \* cache.sync: if clear: archive.clear(); dump(); if not clear: load()
  LET a1 == IF clear THEN Zero ELSE Arch(cur)
      a2 == Overlay(a1, mem)
  IN /\ archs' = WithArch(cur, a2)
     /\ mem' = IF clear \/ cur = 0 THEN mem ELSE Overlay(mem, a2)
     /\ UNCHANGED <<cur, swap, stats, queue, refc, ucnt, uord>>
     /\ Quiet("sync", [clear |-> clear])

Clear(keep) ==
  /\ mem' = IF EffAlg = "no" /\ "no_clear_keeps_cache" \in Deviations THEN mem ELSE Zero
  /\ queue' = <<>> /\ refc' = Zero /\ ucnt' = Zero /\ uord' = <<>>
  /\ stats' = IF keep THEN stats ELSE <<0, 0, 0>>
  /\ UNCHANGED <<archs, cur, swap>>
  /\ Quiet("clear", [keep |-> keep])

ArchOff ==
  /\ IF cur # 0 THEN cur' = swap /\ swap' = cur ELSE UNCHANGED <<cur, swap>>
  /\ UNCHANGED <<mem, archs, stats, queue, refc, ucnt, uord>>
  /\ Quiet("arch_off", NoExtra)

ArchOn ==
  /\ IF swap # 0 THEN cur' = swap /\ swap' = cur ELSE UNCHANGED <<cur, swap>>
  /\ UNCHANGED <<mem, archs, stats, queue, refc, ucnt, uord>>
  /\ Finish(Event("arch_on", [ret |-> 0, ev |-> <<>>,
                              exc |-> IF swap = 0 /\ cur = 0 THEN "ValueError" ELSE "none"]))

SetArchive(x) ==   \* f.archive(obj): property setter of cache.archive
  /\ cur' = x
  /\ swap' = 0
  /\ UNCHANGED <<mem, archs, stats, queue, refc, ucnt, uord>>
  /\ Quiet("set_archive", [x |-> x])

Lookup(a) ==
  /\ UNCHANGED <<mem, archs, cur, swap, stats, queue, refc, ucnt, uord>>
  /\ Finish(Event("lookup", [a |-> a, ev |-> <<>>,
                             ret |-> mem[KeyOf[a]], exc |-> IF mem[KeyOf[a]] # 0 THEN "none" ELSE "KeyError"]))

KeyQ(a) ==
  /\ UNCHANGED <<mem, archs, cur, swap, stats, queue, refc, ucnt, uord>>
  /\ Finish(Event("key", [a |-> a, ev |-> <<>>, ret |-> KeyOf[a], exc |-> "none"]))

InfoQ ==
  /\ UNCHANGED <<mem, archs, cur, swap, stats, queue, refc, ucnt, uord>>
  /\ Quiet("info", NoExtra)

KeySeqs == {<<1>>, <<2>>, <<1, 2>>, <<2, 3>>}

NextMgmt ==
     \/ "load" \in OPS /\ Load
     \/ "loadk" \in OPS /\ \E ks \in KeySeqs : LoadK(ks)
     \/ "dump" \in OPS /\ Dump
     \/ "dumpk" \in OPS /\ \E ks \in KeySeqs : DumpK(ks)
     \/ "clear" \in OPS /\ \E keep \in BOOLEAN : Clear(keep)
     \/ "sync" \in OPS /\ NARCH >= 1 /\ \E cl \in BOOLEAN : Sync(cl)
     \/ "arch_off" \in OPS /\ NARCH >= 1 /\ ArchOff
     \/ "arch_on" \in OPS /\ NARCH >= 1 /\ ArchOn
     \/ "set_archive" \in OPS /\ NARCH >= 2 /\ \E x \in 1..2 : SetArchive(x)
     \/ "lookup" \in OPS /\ \E a \in ARGS : KindOf[a] \notin {"unkey", "unkeyraise"} /\ Lookup(a)
     \/ "key" \in OPS /\ \E a \in ARGS : KindOf[a] \notin {"unkey", "unkeyraise"} /\ KeyQ(a)
     \/ "info" \in OPS /\ InfoQ

Next ==
  /\ n < DEPTH
  /\ \/ "call" \in OPS /\ \E a \in ARGS : Call(a)
     \/ Return
     \/ stack = <<>> /\ NextMgmt      \* management operations are not issued from inside the wrapped function

Spec == Init /\ [][Next]_vars

-----------------------------------------------------------------------------
(* Refinement obligation: every step of layer I satisfies every selected clause of layer P *)
StepOK == n' > n => Failed(Props, Cfg, PState, last') = {}      \* (Enter produces no event)
Refines == [][StepOK]_vars

(* structural invariants of the mechanism (layer I only) *)
TypeOK == /\ \A k \in 1..NK : mem[k] \in {0, ValOfKey(k)}
          /\ cur \in 0..NA /\ swap \in 0..NA
          /\ ~(cur # 0 /\ swap # 0)
LruQueueCoversResident ==
   (EffAlg = "lru" /\ ~g.taint) => \A k \in Dom(mem) : k \in ToSet(queue)
LruRefcountIsMultiplicity ==
   (EffAlg = "lru") => \A k \in 1..NK : refc[k] >= 0 => refc[k] = Cardinality({p \in 1..Len(queue) : queue[p] = k})
LruQueueBounded == EffAlg = "lru" => Len(queue) <= MAXSIZE * QMULT
MruQueueIsResident ==
   (EffAlg = "mru" /\ ~g.taint) => Dom(mem) = ToSet(queue) /\ Len(queue) = Size(mem)
MruTopIsResident ==
   (EffAlg = "mru" /\ ~g.taint /\ Size(mem) > 0) => queue # <<>> /\ queue[Len(queue)] \in Dom(mem)
LfuCountsAreResident ==
   (EffAlg = "lfu" /\ ~g.taint) => {k \in 1..NK : ucnt[k] # 0} = Dom(mem) /\ ToSet(uord) = Dom(mem)
GhostUsesMatch ==
   (EffAlg = "lfu" /\ ~g.taint) => \A k \in Dom(mem) : ucnt[k] = g.uses[k]

(* behaviour generation: print the operation history of complete walks as JSON *)
=============================================================================

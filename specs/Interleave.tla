----------------------------- MODULE Interleave -----------------------------
(***************************************************************************)
(* All interleavings of N processes that take a given number of steps      *)
(* each, with a bound on context switches.  Used to schedule real          *)
(* processes step by step where the steps are whatever scheduling points   *)
(* the real operation has (measured in a solo run), e.g. the SQL           *)
(* statements of the sqlite archive: the schedule then adapts to the code  *)
(* under test instead of to a model of it.                                 *)
(***************************************************************************)
EXTENDS Naturals, Sequences, TLC, Json
CONSTANTS S1, S2, S3,      \* steps of process 1, 2, 3 (0 = no such process)
          MAXSW
Steps == <<S1, S2, S3>>
VARIABLES left, sched
vars == <<left, sched>>
Init == left = Steps /\ sched = <<>>
Next == \E p \in 1..3 : left[p] > 0 /\ left' = [left EXCEPT ![p] = @ - 1] /\ sched' = Append(sched, p)
Spec == Init /\ [][Next]_vars
RECURSIVE Switches(_)
Switches(sq) == IF Len(sq) < 2 THEN 0 ELSE (IF sq[1] # sq[2] THEN 1 ELSE 0) + Switches(Tail(sq))
FewSwitches == Switches(sched) <= MAXSW
Done == \A p \in 1..3 : left[p] = 0
Emit == Done => PrintT(<<"ORDER", ToJson([order |-> sched])>>)
=============================================================================

----------------------------- MODULE FsGenFile -----------------------------
(* schedules of FileFS (see FsGen) *)
EXTENDS FileFS, Json
Emit == Quiet => PrintT(<<"SCHED", ToJson([sched |-> sched, res |-> res, view |-> FinalView])>>)
=============================================================================

------------------------------ MODULE RoundGen ------------------------------
(* emits the catalogue of layer I as JSON: one line per shape with every call (two leaves from Leaves);
   harness/round_checks.py builds the Python values, pushes every call through real klepto caches, klepto.keygen
   and the standalone rounding decorators (B2: spec -> code). *)
EXTENDS RoundImpl, Json
Emit == ph = 0 => PrintT(<<"GROUP", ToJson([sh |-> sh, calls |-> Calls(sh)])>>)
GSpec == Init /\ [][FALSE]_vars
=============================================================================

-------------------------------- MODULE FsP --------------------------------
(***************************************************************************)
(* Layer P for the persistent archives as shared durable stores:           *)
(* crash atomicity (C13) and concurrent processes (C14).                   *)
(*                                                                         *)
(* Contents are maps key id -> value id (0 = absent), as everywhere.       *)
(* A view is what a fresh process reports after opening the archive:       *)
(*   view = [lenok, len, keysok, keys (sequence of key ids; a key that was *)
(*           never stored is reported as a negative id), itemsok, items    *)
(*           (map; a value that was never stored is negative), loadok,     *)
(*           load (map: cache.load() through a cached handle)]             *)
(* An operation is a record [t, k, v, k2, v2] (t = "set", "update", "del", *)
(* "pop", "clear", "dump", "open", "setdefault", "popkeys", "popitem",     *)
(* "get", "contains", "len", "keys", "items", "load").                     *)
(***************************************************************************)
EXTENDS Naturals, Integers, Sequences, FiniteSets, TLC

Chk(props, p, name, cond) == IF p \notin props THEN {} ELSE IF cond THEN {} ELSE {<<p, name>>}
Names2(failed) == {x[2] : x \in failed}
ToSet(s) == {s[x] : x \in 1..Len(s)}
Dom(m) == {k \in 1..Len(m) : m[k] # 0}
EmptyMap(n) == [k \in 1..n |-> 0]

\* what the operation intends: contents after it, and the keys it touches
Apply(M, o) ==
  CASE o.t = "set"    -> [M EXCEPT ![o.k] = o.v]
    [] o.t \in {"update", "dump"} -> [M EXCEPT ![o.k] = o.v, ![o.k2] = o.v2]
    [] o.t \in {"del", "pop"} -> [M EXCEPT ![o.k] = 0]
    [] o.t = "clear"  -> EmptyMap(Len(M))
    [] o.t = "setdefault" -> IF M[o.k] # 0 THEN M ELSE [M EXCEPT ![o.k] = o.v]
    [] o.t = "popkeys" -> [M EXCEPT ![o.k] = 0, ![o.k2] = 0]
    [] o.t = "popitem" -> EmptyMap(Len(M))      \* (some one item goes: every key is "touched", each may stay or go)
    [] OTHER -> M
Touched(M, o) ==
  CASE o.t = "set"    -> {o.k}
    [] o.t \in {"update", "dump"} -> {o.k, o.k2}
    [] o.t \in {"del", "pop"} -> {o.k}
    [] o.t \in {"clear", "popitem"} -> 1..Len(M)
    [] o.t = "setdefault" -> {o.k}
    [] o.t = "popkeys" -> {o.k, o.k2}
    [] OTHER -> {}

\* one view of the contents (a map) against the state before and the state intended
MapOK(M, M2, touched, V) == \A k \in 1..Len(M) : IF k \in touched THEN V[k] \in {M[k], M2[k]} ELSE V[k] = M[k]
KeysOK(M, M2, touched, ks) == \A k \in 1..Len(M) :
    IF k \in touched THEN (k \in ks) \in {M[k] # 0, M2[k] # 0} ELSE (k \in ks) = (M[k] # 0)

(***************************************************************************)
(* C13: one operation `o` begun in contents M, the process killed before   *)
(* it returned (or right after), then a fresh process reports `view`.      *)
(***************************************************************************)
FailedCrash(props, M, o, view) ==
  LET M2 == Apply(M, o)
      tc == Touched(M, o)
      ks == ToSet(view.keys)
  IN   Chk(props, "C13", "C13.ReaderNoError", view.lenok /\ view.keysok /\ view.itemsok /\ view.loadok)
  \cup Chk(props, "C13", "C13.NoPhantomKey", (view.keysok => \A k \in ks : k > 0)
                                              /\ (view.itemsok => \A k \in 1..Len(view.items) : view.items[k] >= 0)
                                              /\ (view.loadok => \A k \in 1..Len(view.load) : view.load[k] >= 0))
  \cup Chk(props, "C13", "C13.UntouchedKeysUnchanged",
             /\ view.itemsok => \A k \in (1..Len(M)) \ tc : view.items[k] = M[k]
             /\ view.loadok => \A k \in (1..Len(M)) \ tc : view.load[k] = M[k]
             /\ view.keysok => \A k \in (1..Len(M)) \ tc : (k \in ks) = (M[k] # 0))
  \cup Chk(props, "C13", "C13.TouchedOldOrNew",
             /\ view.itemsok => \A k \in tc : view.items[k] \in {M[k], M2[k]}
             /\ view.loadok => \A k \in tc : view.load[k] \in {M[k], M2[k]}
             /\ view.keysok => \A k \in tc : (k \in ks) \in {M[k] # 0, M2[k] # 0})
  \cup Chk(props, "C13", "C13.PopitemRemovesAtMostOne", (o.t = "popitem" /\ view.itemsok) =>
             Cardinality({k \in Dom(M) : view.items[k] = 0}) <= 1)
  \cup Chk(props, "C13", "C13.LenIsANumberOfKeys", view.lenok =>
             \E S \in SUBSET (1..Len(M)) : Cardinality(S) = view.len /\ KeysOK(M, M2, tc, S))

(***************************************************************************)
(* C14: operations ops[1..n] run concurrently from contents M (nobody is   *)
(* killed); res[i] = [ok, i (integer result), m (map result)] is what      *)
(* operation i returned, `view` what a fresh process reports afterwards.   *)
(* stored(k) = the values some operation stores for k, plus the initial.   *)
(* single = the single-file archive: readers must see one of the complete  *)
(* dictionaries that existed.                                              *)
(***************************************************************************)
Writers(ops) == {i \in 1..Len(ops) : ops[i].t \in {"set", "update", "dump", "del", "pop", "clear"}}
StoredFor(M, ops, k) == {M[k]} \cup {ops[i].v : i \in {j \in 1..Len(ops) : ops[j].t \in {"set", "update", "dump"} /\ ops[j].k = k}}
                              \cup {ops[i].v2 : i \in {j \in 1..Len(ops) : ops[j].t \in {"update", "dump"} /\ ops[j].k2 = k}}
Removes(ops, k) == \E i \in 1..Len(ops) : (ops[i].t \in {"del", "pop"} /\ ops[i].k = k) \/ ops[i].t = "clear"
\* a value a reader may see for k: something stored for it, or nothing if it was absent or may have been removed
MaySee(M, ops, k, x) == x \in StoredFor(M, ops, k) \/ (x = 0 /\ (M[k] = 0 \/ Removes(ops, k)))
\* the complete dictionaries that can have existed: any subset of the writers applied in any order (bounded: <= 3 ops)
RECURSIVE ApplyAll(_, _, _)
ApplyAll(M, ops, order) == IF order = <<>> THEN M ELSE ApplyAll(Apply(M, ops[Head(order)]), ops, Tail(order))
Orders(S) == {s \in UNION {[1..n -> S] : n \in 0..Cardinality(S)} : \A x, y \in 1..Len(s) : x # y => s[x] # s[y]}
Dictionaries(M, ops) == {ApplyAll(M, ops, s) : s \in Orders(Writers(ops))}

FailedConc(props, single, M, ops, res, view) ==
  LET n == Len(ops)
      reader(i) == ops[i].t \in {"get", "contains", "len", "keys", "items", "load", "open"}
      touchedBy(i) == Touched(M, ops[i])
      alone(i, k) == \A j \in Writers(ops) : j # i => k \notin touchedBy(j)
  IN   Chk(props, "C14", "C14.ReaderNeverFails", \A i \in 1..n : reader(i) =>
             (res[i].ok \/ (ops[i].t = "get" /\ res[i].exc = "KeyError" /\ MaySee(M, ops, ops[i].k, 0))))
  \cup Chk(props, "C14", "C14.WriterNeverFails", \A i \in Writers(ops) :
             (res[i].ok \/ (ops[i].t \in {"del", "pop"} /\ res[i].exc = "KeyError" /\ MaySee(M, ops, ops[i].k, 0))))
  \* res[i].i < 0 marks a key that was never stored among the keys / items a reader returned
  \cup Chk(props, "C14", "C14.NoPhantomKey", \A i \in 1..n : (ops[i].t \in {"keys", "items", "load"} /\ res[i].ok) => res[i].i >= 0)
  \cup Chk(props, "C14", "C14.NoPhantomOrTornRead", \A i \in 1..n : (reader(i) /\ res[i].ok) =>
             CASE ops[i].t = "get" -> MaySee(M, ops, ops[i].k, res[i].i)
               [] ops[i].t \in {"items", "load"} -> \A k \in 1..Len(M) : MaySee(M, ops, k, res[i].m[k])
               [] ops[i].t = "keys" -> \A k \in 1..Len(M) : IF res[i].m[k] # 0 THEN \E x \in StoredFor(M, ops, k) : x # 0
                                                                                  ELSE MaySee(M, ops, k, 0)
               [] OTHER -> TRUE)
  \cup Chk(props, "C14", "C14.LenPlausible", \A i \in 1..n : (ops[i].t = "len" /\ res[i].ok) =>
             \E S \in SUBSET (1..Len(M)) : Cardinality(S) = res[i].i
                  /\ \A k \in 1..Len(M) : (k \in S => \E x \in StoredFor(M, ops, k) : x # 0) /\ (k \notin S => MaySee(M, ops, k, 0)))
  \cup Chk(props, "C14", "C14.SingleFileReadsACompleteDictionary", single => \A i \in 1..n :
             /\ (ops[i].t \in {"items", "load"} /\ res[i].ok) => res[i].m \in Dictionaries(M, ops)
             /\ (ops[i].t = "keys" /\ res[i].ok) => \E D \in Dictionaries(M, ops) : \A k \in 1..Len(M) : (res[i].m[k] # 0) = (D[k] # 0))
  \cup Chk(props, "C14", "C14.FinalViewReadable", view.lenok /\ view.keysok /\ view.itemsok /\ view.loadok)
  \cup Chk(props, "C14", "C14.NoLostWrite", view.itemsok => \A i \in Writers(ops) : res[i].ok => \A k \in touchedBy(i) :
             alone(i, k) => view.items[k] = Apply(M, ops[i])[k])
  \* a key that some completed operation stored, and that nobody removes, is there afterwards
  \cup Chk(props, "C14", "C14.StoredKeyPresent", view.itemsok => \A k \in 1..Len(M) :
             ((M[k] # 0 \/ \E i \in Writers(ops) : res[i].ok /\ ops[i].t \in {"set", "update", "dump"} /\ k \in touchedBy(i))
              /\ ~Removes(ops, k)) => view.items[k] # 0)
  \cup Chk(props, "C14", "C14.FinalViewOnlyStoredValues", view.itemsok => \A k \in 1..Len(M) : MaySee(M, ops, k, view.items[k]))
  \cup Chk(props, "C14", "C14.SingleFileNoCompletedWriteLost", (single /\ view.itemsok) =>
             \* every writer completed: the final dictionary is all of them applied in some order
             ((\A i \in Writers(ops) : res[i].ok) =>
                 \E s \in Orders(Writers(ops)) : Len(s) = Cardinality(Writers(ops)) /\ view.items = ApplyAll(M, ops, s)))
=============================================================================

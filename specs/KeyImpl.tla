------------------------------- MODULE KeyImpl -------------------------------
(***************************************************************************)
(* Layer I for cache keys: klepto._inspect._keygen (defaults mixed in,     *)
(* call keywords appended in call order, NULL substitution, clipping of    *)
(* varargs, popping of extra keywords, transfer of named positionals) and  *)
(* klepto.keymaps (flat / non-flat, typed, sentinel, unwrapping of a lone  *)
(* fast-typed element) transcribed, with the encoders modelled by what     *)
(* they preserve: raw = Python equality (1 == 1.0 == True, dict unordered) *)
(* and str / pickle / named hash = structural identity including order.    *)
(*                                                                         *)
(* TLC enumerates the catalogue (signature, ignore specification, two      *)
(* calls) and checks that the transcribed keys satisfy the clauses of      *)
(* layer P for every keymap configuration (PairOK).  Named deviations      *)
(* switch the pinned behaviour of the code on.                             *)
(***************************************************************************)
EXTENDS KeyP

CONSTANTS SigIds,      \* which signatures of the catalogue to explore
          PVals,       \* value ids usable positionally / by keyword
          MAXP, MAXK,  \* bounds on positional / keyword arguments of a call
          KwNames,     \* names usable as keywords
          IgnIds,      \* which ignore specifications to explore
          Deviations

V(i) == CASE i = 1 -> [t |-> "int", v |-> 1]
          [] i = 2 -> [t |-> "int", v |-> 2]
          [] i = 3 -> [t |-> "float", v |-> 1]
          [] i = 4 -> [t |-> "bool", v |-> 1]
          [] i = 5 -> [t |-> "str", v |-> 100]      \* 'a'
          [] i = 6 -> [t |-> "str", v |-> 101]      \* 'x' : equal to the NAME x inside a flat key
          [] i = 7 -> [t |-> "str", v |-> 110]      \* '1' : the repr of the int 1
          [] i = 8 -> [t |-> "str", v |-> 111]      \* a string of 205 characters
          [] i = 9 -> [t |-> "obj", v |-> 120]      \* an instance of a user class
          [] i = 10 -> [t |-> "tup", v |-> 130]     \* the tuple (1, 2): ONE argument, not two
          [] OTHER -> [t |-> "int", v |-> 7]
NULL == [t |-> "NULL", v |-> 0]
MARK == [t |-> "mark", v |-> 0]
NameCode(n) == CASE n = "x" -> 101 [] n = "y" -> 102 [] n = "k" -> 103 [] n = "z" -> 104
                  [] n = "func" -> 105 [] n = "ignored" -> 106 [] n = "self" -> 107     \* names klepto uses for its own parameters
                  [] n = "x/" -> 201 [] n = "y/" -> 202 [] OTHER -> 109
Shadow(n) == IF n = "x" THEN "x/" ELSE IF n = "y" THEN "y/" ELSE n      \* an extra keyword named like a positional-only parameter
NameVal(n) == [t |-> "str", v |-> NameCode(n)]
TypeOf(x) == [t |-> "type", v |-> CASE x.t = "int" -> 1 [] x.t = "float" -> 2 [] x.t = "bool" -> 3
                                     [] x.t = "str" -> 4 [] OTHER -> 5]
D == [t |-> "int", v |-> 2]       \* every default is 2: spelled out = V(2)

P(n)  == [n |-> n, hd |-> FALSE, d |-> D, po |-> FALSE]
PD(n) == [n |-> n, hd |-> TRUE, d |-> D, po |-> FALSE]
PO(pp) == [pp EXCEPT !.po = TRUE]        \* the same parameter, positional-only
\* the catalogue of signatures: id -> sig
\* ids 0..47: no positional-only parameter; ids 48..95: the same shapes with the FIRST parameter positional-only
\* (def f(x, /, ...)); ids 96..143: with ALL positional parameters positional-only (def f(x, y=2, /, ...))
Sig(i) ==
  LET j   == i % 48
      pom == i \div 48
      pos0 == CASE (j % 4) = 0 -> <<>> [] (j % 4) = 1 -> <<P("x")>>
               [] (j % 4) = 2 -> <<P("x"), PD("y")>> [] OTHER -> <<PD("x"), PD("y")>>
      pos == [x \in 1..Len(pos0) |-> IF (pom = 1 /\ x = 1) \/ pom = 2 THEN PO(pos0[x]) ELSE pos0[x]]
      va  == ((j \div 4) % 2) = 1
      ko  == CASE ((j \div 8) % 3) = 0 -> <<>> [] ((j \div 8) % 3) = 1 -> <<P("k")>> [] OTHER -> <<PD("k")>>
      vk  == ((j \div 24) % 2) = 1
  IN [pos |-> pos, va |-> va, ko |-> ko, vk |-> vk]
\* ignore specifications: id -> ign
Ign(i) == CASE i = 0 -> [names |-> {}, idx |-> {}, star |-> FALSE, dstar |-> FALSE]
            [] i = 1 -> [names |-> {"x"}, idx |-> {}, star |-> FALSE, dstar |-> FALSE]
            [] i = 2 -> [names |-> {"y"}, idx |-> {}, star |-> FALSE, dstar |-> FALSE]
            [] i = 3 -> [names |-> {}, idx |-> {0}, star |-> FALSE, dstar |-> FALSE]
            [] i = 4 -> [names |-> {}, idx |-> {1}, star |-> FALSE, dstar |-> FALSE]
            [] i = 5 -> [names |-> {}, idx |-> {}, star |-> TRUE, dstar |-> FALSE]
            [] i = 6 -> [names |-> {}, idx |-> {}, star |-> FALSE, dstar |-> TRUE]
            [] i = 7 -> [names |-> {"k"}, idx |-> {}, star |-> FALSE, dstar |-> FALSE]
            [] i = 8 -> [names |-> {"z"}, idx |-> {}, star |-> FALSE, dstar |-> FALSE]
            [] i = 9 -> [names |-> {"y"}, idx |-> {}, star |-> TRUE, dstar |-> TRUE]
            [] i = 10 -> [names |-> {}, idx |-> {2}, star |-> FALSE, dstar |-> FALSE]
            [] OTHER -> [names |-> {"x"}, idx |-> {1}, star |-> FALSE, dstar |-> TRUE]

KMs == [enc : {"raw", "str", "pickle", "hash"}, flat : BOOLEAN, typed : BOOLEAN, sentinel : BOOLEAN]

-----------------------------------------------------------------------------
(* ordered dictionaries: sequences of [n, v] with distinct names *)
ONames(od) == {od[x].n : x \in 1..Len(od)}
Upd(od, n, v) == IF n \in ONames(od)
                 THEN [x \in 1..Len(od) |-> IF od[x].n = n THEN [n |-> n, v |-> v] ELSE od[x]]
                 ELSE Append(od, [n |-> n, v |-> v])
RECURSIVE UpdAll(_, _)
UpdAll(od, items) == IF items = <<>> THEN od ELSE UpdAll(Upd(od, Head(items).n, Head(items).v), Tail(items))
Remove(od, ns) == SelectSeq(od, LAMBDA it : it.n \notin ns)
NameLess(a, b) == NameCode(a) < NameCode(b)
RECURSIVE SortByName(_)
SortByName(od) == IF od = <<>> THEN <<>>
                  ELSE LET m == CHOOSE x \in 1..Len(od) : \A y \in 1..Len(od) : ~NameLess(od[y].n, od[x].n)
                       IN <<od[m]>> \o SortByName(SubSeq(od, 1, m - 1) \o SubSeq(od, m + 1, Len(od)))
RECURSIVE SetToSortedSeq(_)
SetToSortedSeq(S) == IF S = {} THEN <<>>
                     ELSE LET m == CHOOSE x \in S : \A y \in S : ~NameLess(y, x)
                          IN <<m>> \o SetToSortedSeq(S \ {m})
Min(a, b) == IF a <= b THEN a ELSE b

(* klepto._inspect._keygen for a plain function *)
Keygen(sig, ign, c) ==
  LET np     == Len(sig.pos)
      named  == [x \in 1..np |-> sig.pos[x].n]
      namedS == {named[x] : x \in 1..np}
      defs   == SelectSeq([x \in 1..np |-> [n |-> sig.pos[x].n, v |-> sig.pos[x].d, hd |-> sig.pos[x].hd]], LAMBDA it : it.hd)
                \o SelectSeq([x \in 1..Len(sig.ko) |-> [n |-> sig.ko[x].n, v |-> sig.ko[x].d, hd |-> sig.ko[x].hd]], LAMBDA it : it.hd)
      od0    == [x \in 1..Len(defs) |-> [n |-> defs[x].n, v |-> defs[x].v]]
      \* pinned behaviour (known finding "posonly_keyword_shadowed"): getfullargspec lists positional-only parameters
      \* among the named ones, so the extra keyword x of f(1, x=2) [def f(x, /, **kw)] lands in the slot of the PARAMETER x
      \* and is then overwritten by the positional value; idealised: it is kept under a name of its own
      poN    == {sig.pos[x].n : x \in {y \in 1..np : IsPO(sig.pos[y])}}
      ck     == IF "posonly_keyword_shadowed" \in Deviations THEN c.k
                ELSE [x \in 1..Len(c.k) |-> IF c.k[x].n \in poN THEN [n |-> Shadow(c.k[x].n), v |-> c.k[x].v] ELSE c.k[x]]
      od1    == UpdAll(od0, ck)
      idxI   == ign.idx \cup {x - 1 : x \in {y \in 1..np : named[y] \in ign.names}}
      nameI  == ign.names \cup {named[x] : x \in {y \in 1..np : (y - 1) \in ign.idx}}
      ua1    == [x \in 1..Len(c.p) |-> IF (x - 1) \in idxI THEN NULL ELSE c.p[x]]
      ua2    == IF ign.star THEN SubSeq(ua1, 1, Min(Len(ua1), np)) ELSE ua1
      keys   == ONames(od1) \cup namedS
      nulls  == SetToSortedSeq(nameI \cap keys)
      params == namedS \cup Names(sig.ko)
      \* pinned behaviour (known finding "ignored_varkw_null_marker"): an ignored name that arrives only through
      \* **kw is kept as (name, NULL) when passed and is absent when not passed; idealised: it is dropped
      od2a   == UpdAll(od1, [x \in 1..Len(nulls) |-> [n |-> nulls[x], v |-> NULL]])
      od2    == IF "ignored_varkw_null_marker" \in Deviations THEN od2a
                ELSE Remove(od2a, nameI \ params)
      kwn    == {ck[x].n : x \in 1..Len(ck)}
      konly  == Names(sig.ko)
      popped == IF ~ign.dstar THEN {}
                ELSE IF "starstar_pops_kwonly" \in Deviations THEN kwn \ namedS
                ELSE kwn \ (namedS \cup konly)
      od3    == Remove(od2, popped)
      m      == Min(np, Len(ua2))
      od4    == UpdAll(od3, [x \in 1..m |-> [n |-> named[x], v |-> ua2[x]]])
  IN [args |-> SubSeq(ua2, np + 1, Len(ua2)), kwds |-> od4]

Flatten(items) == LET RECURSIVE F(_)
                      F(s) == IF s = <<>> THEN <<>> ELSE <<NameVal(Head(s).n), Head(s).v>> \o F(Tail(s))
                  IN F(items)
Types(s) == [x \in 1..Len(s) |-> TypeOf(s[x])]
Vals(items) == [x \in 1..Len(items) |-> items[x].v]
FastType(x) == x.t \in {"int", "str", "none"}     \* (bool is not `int` for `type(x) in fasttypes`)

(* klepto.keymaps.keymap.encode / encrypt : the structure handed to the encoder *)
KeyStruct(km, kg) ==
  LET items == SortByName(kg.kwds)
      mk    == IF km.sentinel THEN <<MARK>> ELSE <<>>
  IN IF km.flat
     THEN LET base == kg.args \o (IF kg.kwds # <<>> THEN mk \o Flatten(items) ELSE <<>>)
              full == IF km.typed
                      THEN base \o mk \o Types(kg.args) \o (IF kg.kwds # <<>> THEN mk \o Types(Vals(items)) ELSE <<>>)
                      ELSE base
          IN IF ~km.typed /\ Len(full) = 1 /\ FastType(full[1])
             THEN [shape |-> "single", a |-> full, kw |-> <<>>, ta |-> <<>>, tk |-> <<>>]
             ELSE [shape |-> "flat", a |-> full, kw |-> <<>>, ta |-> <<>>, tk |-> <<>>]
     ELSE [shape |-> "nonflat", a |-> kg.args,
           kw |-> IF "nonflat_kwds_order" \in Deviations THEN kg.kwds ELSE items,
           ta |-> IF km.typed THEN Types(kg.args) ELSE <<>>,
           tk |-> IF km.typed THEN Types(Vals(items)) ELSE <<>>]

ElemEq(a, b) == IF a.t \in Num /\ b.t \in Num THEN a.v = b.v ELSE a = b
SeqPyEq(s, w) == Len(s) = Len(w) /\ \A x \in 1..Len(s) : ElemEq(s[x], w[x])
DictPyEq(d, f) == /\ ONames(d) = ONames(f)
                  /\ \A x \in 1..Len(d) : \A y \in 1..Len(f) : d[x].n = f[y].n => ElemEq(d[x].v, f[y].v)
\* equality of two encoded keys, by what the encoder preserves
\* named deviation "stringmap_bare_str" (known finding): the str encoding of a key that is one bare value does not tell
\* the int 1 from the string '1'
StrSame(x, y) == x = y \/ {x, y} = {V(1), V(7)}
KeyEq(km, a, b) ==
  IF km.enc = "raw"
  THEN a.shape = b.shape /\ SeqPyEq(a.a, b.a) /\ DictPyEq(a.kw, b.kw) /\ a.ta = b.ta /\ a.tk = b.tk
  ELSE IF km.enc = "str" /\ "stringmap_bare_str" \in Deviations /\ a.shape = "single" /\ b.shape = "single"
  THEN StrSame(a.a[1], b.a[1])
  ELSE a = b

Key(sig, ign, km, c) == KeyStruct(km, Keygen(sig, ign, c))

-----------------------------------------------------------------------------
(* the catalogue of calls *)
SeqsUpTo(S, m) == UNION {[1..len -> S] : len \in 0..m}
PArgs == {[x \in 1..Len(s) |-> V(s[x])] : s \in SeqsUpTo(PVals, MAXP)}
KwSeqs == {s \in SeqsUpTo(KwNames \X PVals, MAXK) : \A x, y \in 1..Len(s) : x # y => s[x][1] # s[y][1]}
KArgs == {[x \in 1..Len(s) |-> [n |-> s[x][1], v |-> V(s[x][2])]] : s \in KwSeqs}
Calls == [p : PArgs, k : KArgs]
Valid(sig, c) == PyBind(sig, c).ok

VARIABLES sid, iid, c1, c2, ph
vars == <<sid, iid, c1, c2, ph>>
NoCall == [p |-> <<>>, k |-> <<>>]

Init == sid \in SigIds /\ iid \in IgnIds /\ c1 = NoCall /\ c2 = NoCall /\ ph = 0
Next == \/ /\ ph = 0 /\ \E c \in Calls : Valid(Sig(sid), c) /\ c1' = c
           /\ ph' = 1 /\ UNCHANGED <<sid, iid, c2>>
        \/ /\ ph = 1 /\ \E c \in Calls : Valid(Sig(sid), c) /\ c2' = c
           /\ ph' = 2 /\ UNCHANGED <<sid, iid, c1>>
Spec == Init /\ [][Next]_vars

(* the refinement obligation on a pair of calls, for every keymap configuration *)
PairClauses(sig, ign, a, b) ==
  LET na == NF(sig, ign, PyBind(sig, a))
      nb == NF(sig, ign, PyBind(sig, b))
  IN UNION {   Chk({"C09", "C10"}, "C09", "C09.Canonical", NFSame(na, nb) => KeyEq(km, Key(sig, ign, km, a), Key(sig, ign, km, b)))
          \cup Chk({"C09", "C10"}, "C10", "C10.Discriminates", (InfoPreserving(sig, km) /\ NFDiffer(na, nb, km.typed))
                                                 => ~KeyEq(km, Key(sig, ign, km, a), Key(sig, ign, km, b)))
          : km \in KMs }
PairOK == ph = 2 => PairClauses(Sig(sid), Ign(iid), c1, c2) = {}
=============================================================================

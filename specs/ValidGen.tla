------------------------------ MODULE ValidGen ------------------------------
(* emits the catalogue of layer I as JSON: one line per target (signature shape, kind of callable, partial)
   and one line with every call; harness/valid_checks.py materialises each target as a real Python callable
   and puts every call to klepto.isvalid, klepto.validate and the interpreter (B2: spec -> code). *)
EXTENDS ValidImpl, Json
ASSUME PrintT(<<"CALLS", ToJson(CallSet)>>)
Emit == PrintT(<<"TARGET", ToJson(t)>>)
GSpec == Init /\ [][FALSE]_vars
=============================================================================

----------------------------- MODULE PersistImpl -----------------------------
(***************************************************************************)
(* Layer I for C04: handles on one persistent location, in processes that  *)
(* may exit.  klepto's persistent archives keep no contents in the handle: *)
(* every read goes to storage (file_archive.__asdict__, dir_archive        *)
(* ._lookup, sqltable _select_key_items), so any handle of any process     *)
(* reads `store`.  The import-based readers (serialized=False: PY = TRUE)  *)
(* read through Python's import system, which keeps a byte-code cache      *)
(* beside the source, validated by the source's (mtime in seconds, size):  *)
(*    pyc = [valid, sec, size, c]                                          *)
(* A write sets mtime to the clock; Tick advances the clock.               *)
(* Named deviation "py_bytecode_cache": the reader lets the import write   *)
(* and use byte-code (the pinned behaviour with a default Python): a       *)
(* second write within the same second and of the same size is not seen.   *)
(* Refinement: every step satisfies every clause of PersistP (StepOK).     *)
(***************************************************************************)
EXTENDS PersistP

CONSTANTS NK, VALS, NP, NH, DEPTH, PY, Deviations

VARIABLES store, mt, clock, pyc, alive, hp, last, hist, n
vars == <<store, mt, clock, pyc, alive, hp, last, hist, n>>
View == <<store, mt, clock, pyc, alive, hp, n>>

Digits(v) == IF v = 0 THEN 0 ELSE IF v < 10 THEN 1 ELSE 2
RECURSIVE SizeFrom(_, _)
SizeFrom(c, k) == IF k > Len(c) THEN 0 ELSE Digits(c[k]) + SizeFrom(c, k + 1)
Size(c) == SizeFrom(c, 1)
NoPyc == [valid |-> FALSE, sec |-> 0, size |-> 0, c |-> EmptyMap(NK)]
Cached == PY /\ "py_bytecode_cache" \in Deviations

\* what a read through the import system returns, and the byte-code cache afterwards
ReadNow == IF Cached /\ pyc.valid /\ pyc.sec = mt /\ pyc.size = Size(store) THEN pyc.c ELSE store
PycAfterRead == IF Cached THEN [valid |-> TRUE, sec |-> mt, size |-> Size(store), c |-> ReadNow] ELSE pyc
\* a write is a read-modify-write of what the writer's read returns (file) - modelled on the store itself
\* (directory archives write one entry; the stale read concerns what is read back)

Live(h) == hp[h] # 0 /\ alive[hp[h]]
Finish(e0, seen) ==
  LET e == e0 @@ [seen |-> seen, exc |-> "none", k |-> 1, v |-> 0, same |-> TRUE, kind |-> "none", evals |-> 0, ret |-> 0, h |-> 1, p |-> 1]
  IN last' = e /\ hist' = Append(hist, e0) /\ n' = n + 1

Open(p, h) == /\ alive[p] /\ hp[h] = 0 /\ hp' = [hp EXCEPT ![h] = p]
              /\ pyc' = PycAfterRead /\ UNCHANGED <<store, mt, clock, alive>>
              /\ Finish([op |-> "open", p |-> p, h |-> h], ReadNow)
Write(h, k, v, mut) ==
  /\ Live(h) /\ store' = [store EXCEPT ![k] = v] /\ mt' = clock
  /\ UNCHANGED <<clock, alive, hp>>
  \* the handle then reads back (the event reports what it sees)
  /\ LET seen == IF Cached /\ pyc.valid /\ pyc.sec = mt' /\ pyc.size = Size(store') THEN pyc.c ELSE store'
     IN /\ pyc' = IF Cached THEN [valid |-> TRUE, sec |-> mt', size |-> Size(store'), c |-> seen] ELSE pyc
        /\ Finish([op |-> IF mut THEN "writemut" ELSE "write", p |-> hp[h], h |-> h, k |-> k, v |-> v], seen)
Del(h, k) == /\ Live(h) /\ store[k] # 0 /\ store' = [store EXCEPT ![k] = 0] /\ mt' = clock
             /\ UNCHANGED <<clock, alive, hp>>
             /\ LET seen == IF Cached /\ pyc.valid /\ pyc.sec = mt' /\ pyc.size = Size(store') THEN pyc.c ELSE store'
                IN /\ pyc' = IF Cached THEN [valid |-> TRUE, sec |-> mt', size |-> Size(store'), c |-> seen] ELSE pyc
                   /\ Finish([op |-> "del", p |-> hp[h], h |-> h, k |-> k], seen)
Read(h) == /\ Live(h) /\ pyc' = PycAfterRead /\ UNCHANGED <<store, mt, clock, alive, hp>>
           /\ Finish([op |-> "read", p |-> hp[h], h |-> h], ReadNow)
Rebuild(h, h2, p2, how) ==
  /\ Live(h) /\ alive[p2] /\ hp[h2] = 0 /\ hp' = [hp EXCEPT ![h2] = p2]
  /\ pyc' = PycAfterRead /\ UNCHANGED <<store, mt, clock, alive>>
  /\ Finish([op |-> "rebuild", p |-> p2, h |-> h2, from |-> h, how |-> how], ReadNow)
Decorate(p, k, v) ==
  /\ alive[p] /\ pyc' = pyc /\ UNCHANGED <<mt, clock, alive, hp>>
  /\ store' = IF store[k] = 0 THEN [store EXCEPT ![k] = v] ELSE store
  /\ Finish([op |-> "decorate", p |-> p, k |-> k, v |-> v, kind |-> IF store[k] # 0 THEN "load" ELSE "miss",
             evals |-> IF store[k] # 0 THEN 0 ELSE 1, ret |-> IF store[k] # 0 THEN store[k] ELSE v], store')
Tick == /\ clock' = clock + 1 /\ UNCHANGED <<store, mt, pyc, alive, hp>> /\ Finish([op |-> "tick"], store)
Exit(p) == /\ alive[p] /\ \E q \in 1..NP : q # p /\ alive[q]
           /\ alive' = [alive EXCEPT ![p] = FALSE] /\ UNCHANGED <<store, mt, clock, pyc, hp>>
           /\ Finish([op |-> "exit", p |-> p], store)

Init == /\ store = EmptyMap(NK) /\ mt = 0 /\ clock = 0 /\ pyc = NoPyc
        /\ alive = [p \in 1..NP |-> TRUE] /\ hp = [h \in 1..NH |-> 0]
        /\ last = [op |-> "init"] /\ hist = <<>> /\ n = 0
Next ==
  /\ n < DEPTH
  /\ \/ \E p \in 1..NP, h \in 1..NH : Open(p, h)
     \/ \E h \in 1..NH, k \in 1..NK, v \in VALS, mut \in BOOLEAN : Write(h, k, v, mut)
     \/ \E h \in 1..NH, k \in 1..NK : Del(h, k)
     \/ \E h \in 1..NH : Read(h)
     \/ \E h, h2 \in 1..NH, p2 \in 1..NP, how \in {"state", "copy", "pickle"} : Rebuild(h, h2, p2, how)
     \/ \E p \in 1..NP, k \in 1..NK, v \in VALS : Decorate(p, k, v)
     \/ (clock < 2 /\ Tick)
     \/ \E p \in 1..NP : Exit(p)
Spec == Init /\ [][Next]_vars

PState == [c |-> store]
StepOK == Failed({"C04"}, PState, last') = {}
Refines == [][StepOK]_vars
=============================================================================

----------------------------- MODULE RoundTrace -----------------------------
(* trace validation of real rounding behaviour against RoundP (total: see CacheTrace).
   A trace is one decorated function (cfg) and a sequence of calls; every call is compared with all earlier
   calls of its trace.  Standalone-decorator traces (cfg.standalone) are judged call by call. *)
EXTENDS RoundP, Json, IOUtils, TLCExt
CONSTANT Props
J == JsonDeserialize(IOEnv.TRACE_FILE)
T == J.traces
VARIABLES tid, l, S, rej
vars == <<tid, l, S, rej>>
TraceInit == tid \in 1..Len(T) /\ l = 0 /\ rej = {} /\ S = [seen |-> {}]
TraceNext ==
  /\ rej = {}
  /\ l < Len(T[tid].events)
  /\ LET tr == T[tid]
         e == tr.events[l + 1]
         bad == Names2(IF tr.cfg.standalone THEN FailedStandalone(Props, tr.cfg, e) ELSE Failed(Props, tr.cfg, S, e))
     IN IF bad = {}
        THEN /\ l' = l + 1 /\ S' = (IF tr.cfg.standalone THEN S ELSE Adopt(tr.cfg, S, e)) /\ UNCHANGED <<tid, rej>>
        ELSE /\ rej' = bad /\ PrintT(<<"REJECT", tid, l + 1, bad>>) /\ UNCHANGED <<tid, l, S>>
TraceSpec == TraceInit /\ [][TraceNext]_vars
=============================================================================

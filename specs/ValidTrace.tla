----------------------------- MODULE ValidTrace -----------------------------
(* trace validation of real isvalid/validate outcomes against ValidP (total: see CacheTrace) *)
EXTENDS ValidP, Json, IOUtils, TLCExt
CONSTANT Props
J == JsonDeserialize(IOEnv.TRACE_FILE)
T == J.traces
VARIABLES tid, l, rej
vars == <<tid, l, rej>>
TraceInit == tid \in 1..Len(T) /\ l = 0 /\ rej = {}
TraceNext ==
  /\ l < Len(T[tid].events)
  /\ LET tr == T[tid]
         e == tr.events[l + 1]
         bad == Names2(VFailed(Props, tr.t, e))
     \* cases are independent: a rejected case is reported and the walk goes on, so every case gets a verdict
     IN /\ l' = l + 1 /\ UNCHANGED tid
        /\ IF bad = {} THEN UNCHANGED rej
           ELSE rej' = rej \cup bad /\ PrintT(<<"REJECT", tid, l + 1, bad>>)
TraceSpec == TraceInit /\ [][TraceNext]_vars
=============================================================================

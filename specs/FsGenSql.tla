----------------------------- MODULE FsGenSql -----------------------------
(* schedules of SqlFS (see FsGen) *)
EXTENDS SqlFS, Json
CONSTANT MAXSW
RECURSIVE Switches(_)
Switches(sq) == IF Len(sq) < 2 THEN 0 ELSE (IF sq[1][1] # sq[2][1] THEN 1 ELSE 0) + Switches(Tail(sq))
FewSwitches == Switches(sched) <= MAXSW
Emit == Quiet => PrintT(<<"SCHED", ToJson([sched |-> sched, res |-> res, view |-> FinalView,
                                           bad |-> FailedConc({"C14"}, FALSE, Sc.init, Ops, res, FinalView) # {}])>>)
=============================================================================

------------------------------ MODULE StoreImpl ------------------------------
(***************************************************************************)
(* Layer I for klepto.archives.cache (klepto/_archives.py:129-238):        *)
(* the __archive__/__swap__ juggling of archived(), open(), drop() and the *)
(* `archive` property setter, load/dump/sync as written in the code.       *)
(* Refines: every step satisfies every clause of StoreP.                   *)
(***************************************************************************)
EXTENDS StoreP

CONSTANTS NK, NA, VALS, DEPTH, OPS

VARIABLES mem, archs, arch, swap,   \* arch = __archive__, swap = __swap__ (0 = null_archive instance)
          parked,                   \* ghost of layer P
          last, hist, n
vars == <<mem, archs, arch, swap, parked, last, hist, n>>
View == <<mem, archs, arch, swap, parked, n>>

PState == [mem |-> mem, archs |-> archs, cur |-> arch, parked |-> parked]

Init == /\ mem = EmptyMap(NK)
        /\ archs = [x \in 1..NA |-> EmptyMap(NK)]
        /\ arch = 1 /\ swap = 0 /\ parked = 0
        /\ last = [op |-> "init"] /\ hist = <<>> /\ n = 0

Cur(c) == ArchOf(NK, archs, c)

Finish(e0) ==
  LET e == e0 @@ [mem |-> mem', archs |-> archs', cur |-> arch', nullsize |-> 0]
  IN /\ last' = e
     /\ parked' = Expected(NK, NA, PState, e).parked
     /\ hist' = Append(hist, e0)
     /\ n' = n + 1

Ok(op, extra) == [op |-> op, ret |-> 0, exc |-> "none"] @@ extra
No == [x \in {} |-> 0]

\* archived(True) / archived(False): exchange __archive__ and __swap__
ArchivedOn(a, s) == IF s # 0 THEN [arch |-> s, swap |-> a, exc |-> "none"]
                    ELSE IF a = 0 THEN [arch |-> a, swap |-> s, exc |-> "ValueError"]
                    ELSE [arch |-> a, swap |-> s, exc |-> "none"]
ArchivedOff(a, s) == IF a # 0 THEN [arch |-> s, swap |-> a] ELSE [arch |-> a, swap |-> s]
\* the property setter: if something is parked, exchange first, then bind
SetArchive(a, s, x) == [arch |-> x, swap |-> IF s # 0 THEN a ELSE s]

MSet(k, v) == /\ mem' = [mem EXCEPT ![k] = v] /\ UNCHANGED <<archs, arch, swap>>
              /\ Finish(Ok("mset", [k |-> k, v |-> v]))
MDel(k) == /\ mem' = [mem EXCEPT ![k] = 0] /\ UNCHANGED <<archs, arch, swap>>
           /\ Finish([op |-> "mdel", k |-> k, ret |-> 0, exc |-> IF mem[k] = 0 THEN "KeyError" ELSE "none"])
MPop(k) == /\ mem' = [mem EXCEPT ![k] = 0] /\ UNCHANGED <<archs, arch, swap>>
           /\ Finish([op |-> "mpop", k |-> k, ret |-> mem[k], exc |-> IF mem[k] = 0 THEN "KeyError" ELSE "none"])
MGet(k) == /\ UNCHANGED <<mem, archs, arch, swap>>
           /\ Finish([op |-> "mget", k |-> k, ret |-> mem[k], exc |-> IF mem[k] = 0 THEN "KeyError" ELSE "none"])
MUpdate(k, v, k2, v2) == /\ mem' = [mem EXCEPT ![k] = v, ![k2] = v2] /\ UNCHANGED <<archs, arch, swap>>
                         /\ Finish(Ok("mupdate", [k |-> k, v |-> v, k2 |-> k2, v2 |-> v2]))
MLen == /\ UNCHANGED <<mem, archs, arch, swap>> /\ Finish([op |-> "mlen", ret |-> Cardinality(Dom(mem)), exc |-> "none"])
MContains(k) == /\ UNCHANGED <<mem, archs, arch, swap>>
                /\ Finish([op |-> "mcontains", k |-> k, ret |-> IF mem[k] # 0 THEN 1 ELSE 0, exc |-> "none"])
MKeys == /\ UNCHANGED <<mem, archs, arch, swap>> /\ Finish([op |-> "mkeys", ret |-> EncSeq(SetToSeq(Dom(mem))), exc |-> "none"])
MSetDefault(k, v) == /\ mem' = (IF mem[k] # 0 THEN mem ELSE [mem EXCEPT ![k] = v]) /\ UNCHANGED <<archs, arch, swap>>
                     /\ Finish([op |-> "msetdefault", k |-> k, v |-> v, ret |-> IF mem[k] # 0 THEN mem[k] ELSE v, exc |-> "none"])
MPopItem == /\ UNCHANGED <<archs, arch, swap>>
            /\ IF Dom(mem) = {} THEN mem' = mem /\ Finish([op |-> "mpopitem", rk |-> 0, ret |-> 0, exc |-> "KeyError"])
               ELSE \E k \in Dom(mem) : mem' = [mem EXCEPT ![k] = 0]
                                       /\ Finish([op |-> "mpopitem", rk |-> k, ret |-> mem[k], exc |-> "none"])
\* cache.popkeys: without a default a shadow dictionary is popped first, so a missing (or repeated) key raises before
\* anything is removed; with a default every listed key is popped
MPopKeys(ks) == /\ UNCHANGED <<archs, arch, swap>>
                /\ IF (\A k \in ToSet(ks) : mem[k] # 0) /\ NoDup(ks)
                   THEN /\ mem' = [k \in 1..NK |-> IF k \in ToSet(ks) THEN 0 ELSE mem[k]]
                        /\ Finish([op |-> "mpopkeys", keys |-> ks, ret |-> EncSeq([x \in 1..Len(ks) |-> mem[ks[x]]]), exc |-> "none"])
                   ELSE mem' = mem /\ Finish([op |-> "mpopkeys", keys |-> ks, ret |-> 0, exc |-> "KeyError"])
MPopKeysD(ks) == /\ UNCHANGED <<archs, arch, swap>>
                 /\ mem' = [k \in 1..NK |-> IF k \in ToSet(ks) THEN 0 ELSE mem[k]]
                 /\ Finish([op |-> "mpopkeysd", keys |-> ks, exc |-> "none",
                            ret |-> EncSeq([x \in 1..Len(ks) |-> IF mem[ks[x]] # 0 /\ FirstOcc(ks, x) THEN mem[ks[x]] ELSE 77])])
AClear(x) == /\ archs' = [archs EXCEPT ![x] = EmptyMap(NK)] /\ UNCHANGED <<mem, arch, swap>> /\ Finish(Ok("aclear", [x |-> x]))
AUpdate(x, k, v, k2, v2) == /\ archs' = [archs EXCEPT ![x] = [@ EXCEPT ![k] = v, ![k2] = v2]] /\ UNCHANGED <<mem, arch, swap>>
                            /\ Finish(Ok("aupdate", [x |-> x, k |-> k, v |-> v, k2 |-> k2, v2 |-> v2]))
MClear == /\ mem' = EmptyMap(NK) /\ UNCHANGED <<archs, arch, swap>> /\ Finish(Ok("mclear", No))
ASet(x, k, v) == /\ archs' = [archs EXCEPT ![x] = [@ EXCEPT ![k] = v]] /\ UNCHANGED <<mem, arch, swap>>
                 /\ Finish(Ok("aset", [x |-> x, k |-> k, v |-> v]))
ADel(x, k) == /\ archs' = [archs EXCEPT ![x] = [@ EXCEPT ![k] = 0]] /\ UNCHANGED <<mem, arch, swap>>
              /\ Finish([op |-> "adel", x |-> x, k |-> k, ret |-> 0,
                         exc |-> IF archs[x][k] = 0 THEN "KeyError" ELSE "none"])
Load == /\ mem' = Overlay(mem, Cur(arch)) /\ UNCHANGED <<archs, arch, swap>> /\ Finish(Ok("load", No))
LoadK(ks) == /\ mem' = [k \in 1..NK |-> IF k \in ToSet(ks) /\ Cur(arch)[k] # 0 THEN Cur(arch)[k] ELSE mem[k]]
             /\ UNCHANGED <<archs, arch, swap>> /\ Finish(Ok("loadk", [keys |-> ks]))
Dump == /\ archs' = WithArch(archs, arch, Overlay(Cur(arch), mem)) /\ UNCHANGED <<mem, arch, swap>>
        /\ Finish(Ok("dump", No))
DumpK(ks) == /\ archs' = WithArch(archs, arch, [k \in 1..NK |-> IF k \in ToSet(ks) /\ mem[k] # 0 THEN mem[k] ELSE Cur(arch)[k]])
             /\ UNCHANGED <<mem, arch, swap>> /\ Finish(Ok("dumpk", [keys |-> ks]))
Sync(clear) ==   \* if clear: archive.clear(); dump(); if not clear: load()
  LET a1 == IF clear THEN EmptyMap(NK) ELSE Cur(arch)
      a2 == Overlay(a1, mem)
  IN /\ archs' = WithArch(archs, arch, a2)
     /\ mem' = IF clear \/ arch = 0 THEN mem ELSE Overlay(mem, a2)
     /\ UNCHANGED <<arch, swap>>
     /\ Finish(Ok("sync", [clear |-> clear]))
ArchOn == LET r == ArchivedOn(arch, swap)
          IN /\ arch' = r.arch /\ swap' = r.swap /\ UNCHANGED <<mem, archs>>
             /\ Finish([op |-> "arch_on", ret |-> 0, exc |-> r.exc])
ArchOff == LET r == ArchivedOff(arch, swap)
           IN /\ arch' = r.arch /\ swap' = r.swap /\ UNCHANGED <<mem, archs>> /\ Finish(Ok("arch_off", No))
Open(x) ==   \* try: archived(True) except ValueError: pass; self.archive = x
  LET r == ArchivedOn(arch, swap)
      s == SetArchive(r.arch, r.swap, x)
  IN /\ arch' = s.arch /\ swap' = s.swap /\ UNCHANGED <<mem, archs>> /\ Finish(Ok("open", [x |-> x]))
Assign(x) ==   \* self.archive = x, the bare property setter (x = 0: a null archive)
  LET s == SetArchive(arch, swap, x)
  IN /\ arch' = s.arch /\ swap' = s.swap /\ UNCHANGED <<mem, archs>> /\ Finish(Ok("assign", [x |-> x]))
Drop ==      \* archived(True) (may raise); self.archive = null_archive()
  LET r == ArchivedOn(arch, swap)
      s == SetArchive(r.arch, r.swap, 0)
  IN /\ r.exc = "none"         \* drop() on a cache that never had an archive raises: not part of C08
     /\ arch' = s.arch /\ swap' = s.swap /\ UNCHANGED <<mem, archs>> /\ Finish(Ok("drop", No))
Archived == /\ UNCHANGED <<mem, archs, arch, swap>>
            /\ Finish([op |-> "archived", ret |-> IF arch # 0 THEN 1 ELSE 0, exc |-> "none"])

KeySeqs == {<<1>>, <<2>>, <<1, 2>>}
Val(k, j) == 10 * k + j

Next ==
  /\ n < DEPTH
  /\ \/ "mset" \in OPS /\ \E k \in 1..NK, j \in VALS : MSet(k, Val(k, j))
     \/ "mdel" \in OPS /\ \E k \in 1..NK : MDel(k)
     \/ "mpop" \in OPS /\ \E k \in 1..NK : MPop(k)
     \/ "mget" \in OPS /\ \E k \in 1..NK : MGet(k)
     \/ "mupdate" \in OPS /\ \E j \in VALS : MUpdate(1, Val(1, j), 2, Val(2, j))
     \/ "mclear" \in OPS /\ MClear
     \/ "mlen" \in OPS /\ MLen
     \/ "mkeys" \in OPS /\ MKeys
     \/ "mcontains" \in OPS /\ \E k \in 1..NK : MContains(k)
     \/ "msetdefault" \in OPS /\ \E k \in 1..NK, j \in VALS : MSetDefault(k, Val(k, j))
     \/ "mpopitem" \in OPS /\ MPopItem
     \/ "mpopkeys" \in OPS /\ \E ks \in KeySeqs \cup {<<2, 1>>, <<1, 1>>} : MPopKeys(ks)
     \/ "mpopkeysd" \in OPS /\ \E ks \in KeySeqs \cup {<<2, 1>>, <<1, 1>>} : MPopKeysD(ks)
     \/ "aclear" \in OPS /\ \E x \in 1..NA : AClear(x)
     \/ "aupdate" \in OPS /\ \E x \in 1..NA, j \in VALS : AUpdate(x, 1, Val(1, j), 2, Val(2, j))
     \/ "aset" \in OPS /\ \E x \in 1..NA, k \in 1..NK, j \in VALS : ASet(x, k, Val(k, j))
     \/ "adel" \in OPS /\ \E x \in 1..NA, k \in 1..NK : ADel(x, k)
     \/ "load" \in OPS /\ Load
     \/ "loadk" \in OPS /\ \E ks \in KeySeqs : LoadK(ks)
     \/ "dump" \in OPS /\ Dump
     \/ "dumpk" \in OPS /\ \E ks \in KeySeqs : DumpK(ks)
     \/ "sync" \in OPS /\ \E c \in BOOLEAN : Sync(c)
     \/ "arch_on" \in OPS /\ ArchOn
     \/ "arch_off" \in OPS /\ ArchOff
     \/ "open" \in OPS /\ \E x \in 1..NA : Open(x)
     \/ "assign" \in OPS /\ \E x \in 0..NA : Assign(x)
     \/ "drop" \in OPS /\ Drop
     \/ "archived" \in OPS /\ Archived

Spec == Init /\ [][Next]_vars

StepOK == Failed(NK, NA, PState, last') = {}
Refines == [][StepOK]_vars
NeverBothBound == ~(arch # 0 /\ swap # 0)
GhostMatchesSwap == parked = swap
=============================================================================

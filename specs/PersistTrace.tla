---------------------------- MODULE PersistTrace ----------------------------
(* trace validation of real multi-handle / multi-process executions against PersistP (total: see CacheTrace) *)
EXTENDS PersistP, Json, IOUtils, TLCExt
CONSTANT Props
J == JsonDeserialize(IOEnv.TRACE_FILE)
T == J.traces
VARIABLES tid, l, S, rej
vars == <<tid, l, S, rej>>
TraceInit == tid \in 1..Len(T) /\ l = 0 /\ rej = {} /\ S = [c |-> T[tid].init.c]
TraceNext ==
  /\ rej = {}
  /\ l < Len(T[tid].events)
  /\ LET e == T[tid].events[l + 1]
         bad == Names2(Failed(Props, S, e))
     IN IF bad = {}
        THEN /\ l' = l + 1 /\ S' = Adopt(S, e) /\ UNCHANGED <<tid, rej>>
        ELSE /\ rej' = bad /\ PrintT(<<"REJECT", tid, l + 1, bad>>) /\ UNCHANGED <<tid, l, S>>
TraceSpec == TraceInit /\ [][TraceNext]_vars
=============================================================================

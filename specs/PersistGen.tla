----------------------------- MODULE PersistGen -----------------------------
(* behaviour generation from PersistImpl: complete walks print their operation history as JSON *)
EXTENDS PersistImpl, Json
Emit == (n = DEPTH) => PrintT(<<"HIST", ToJson([ops |-> hist])>>)
=============================================================================

------------------------------- MODULE DictP -------------------------------
(***************************************************************************)
(* Layer P for "every archive type refines a Python dict" (property C03)   *)
(* and the basis of the persistence property (C04).                        *)
(*                                                                         *)
(* State  S = [c, ex]                                                      *)
(*   c[loc][k]   contents of the archive stored at location loc: value id  *)
(*               of key id k (0 = absent); locations 1..NL are distinct    *)
(*               names (files, directories, tables) of one archive type    *)
(*   ex[loc]     the location has been created                             *)
(* Keys and values are small ids; the recorder maps real keys / values to  *)
(* ids (an unknown key or value is reported as a negative id, which no     *)
(* clause accepts).                                                        *)
(*                                                                         *)
(* Event e: op, loc, k, v, k2, v2, d (default value id, 0 = None), ks      *)
(* (sequence of key ids), o (other location), ri / rs (the result as an    *)
(* integer / a sequence of integers), exc, and the observation after the   *)
(* operation: c (contents of every location as read back), n (len() of     *)
(* every location), kk (sorted keys() of every location), cf (contents of   *)
(* every location as read through a fresh handle).                         *)
(*                                                                         *)
(* Exp(cfg, S, e) is what a dict would do.  cfg.null = the null archive:   *)
(* a dict that discards every write.                                       *)
(***************************************************************************)
EXTENDS Naturals, Integers, Sequences, FiniteSets, TLC

ToSet(s)    == {s[x] : x \in 1..Len(s)}
Dom(m)      == {k \in 1..Len(m) : m[k] # 0}
EmptyMap(n) == [k \in 1..n |-> 0]
Chk(props, p, name, cond) == IF p \notin props THEN {} ELSE IF cond THEN {} ELSE {<<p, name>>}
Names2(failed) == {x[2] : x \in failed}
BAD == 9         \* value id of the value the encoding cannot store

RECURSIVE SortedSeq(_)
SortedSeq(S) == IF S = {} THEN <<>> ELSE LET m == CHOOSE x \in S : \A y \in S : x <= y IN <<m>> \o SortedSeq(S \ {m})
\* the sorted sequence of values of a map (with repetitions)
RECURSIVE ValuesFrom(_, _)
ValuesFrom(m, k) == IF k > Len(m) THEN <<>> ELSE (IF m[k] # 0 THEN <<m[k]>> ELSE <<>>) \o ValuesFrom(m, k + 1)
RECURSIVE InsertSorted(_, _)
InsertSorted(x, s) == IF s = <<>> THEN <<x>> ELSE IF x <= Head(s) THEN <<x>> \o s ELSE <<Head(s)>> \o InsertSorted(x, Tail(s))
RECURSIVE Sort(_)
Sort(s) == IF s = <<>> THEN <<>> ELSE InsertSorted(Head(s), Sort(Tail(s)))
RECURSIVE ItemsFrom(_, _)
ItemsFrom(m, k) == IF k > Len(m) THEN <<>> ELSE (IF m[k] # 0 THEN <<k, m[k]>> ELSE <<>>) \o ItemsFrom(m, k + 1)
RECURSIVE PopAll(_, _)
PopAll(m, ks) == IF ks = <<>> THEN m ELSE PopAll([m EXCEPT ![Head(ks)] = 0], Tail(ks))

NoDup(ks) == \A x, y \in 1..Len(ks) : x # y => ks[x] # ks[y]
FirstOcc(ks, x) == \A y \in 1..(x - 1) : ks[y] # ks[x]

Exp(cfg, S, e) ==
  LET m    == S.c[e.loc]
      nk   == Len(m)
      same == [c |-> S.c, ex |-> S.ex, exc |-> "none", ri |-> 0, rs |-> <<>>, any |-> FALSE]
      put(mm) == IF cfg.null THEN same ELSE [same EXCEPT !.c = [S.c EXCEPT ![e.loc] = mm]]
      keyerr == [same EXCEPT !.exc = "KeyError"]
  IN
  CASE e.op = "set"      -> put([m EXCEPT ![e.k] = e.v])
    [] e.op = "setbad"   -> IF e.exc = "none" THEN put([m EXCEPT ![e.k] = BAD]) ELSE [same EXCEPT !.exc = "error"]
    [] e.op = "get"      -> IF m[e.k] # 0 THEN [same EXCEPT !.ri = m[e.k]] ELSE keyerr
    [] e.op = "getd"     -> [same EXCEPT !.ri = IF m[e.k] # 0 THEN m[e.k] ELSE e.d]
    [] e.op = "del"      -> IF m[e.k] # 0 THEN put([m EXCEPT ![e.k] = 0]) ELSE keyerr
    [] e.op = "contains" -> [same EXCEPT !.ri = IF m[e.k] # 0 THEN 1 ELSE 0]
    [] e.op = "len"      -> [same EXCEPT !.ri = Cardinality(Dom(m))]
    [] e.op \in {"iter", "keys"} -> [same EXCEPT !.rs = SortedSeq(Dom(m))]
    [] e.op = "values"   -> [same EXCEPT !.rs = Sort(ValuesFrom(m, 1))]
    [] e.op = "items"    -> [same EXCEPT !.rs = ItemsFrom(m, 1)]
    [] e.op = "pop"      -> IF m[e.k] # 0 THEN [put([m EXCEPT ![e.k] = 0]) EXCEPT !.ri = m[e.k]] ELSE keyerr
    [] e.op = "popd"     -> IF m[e.k] # 0 THEN [put([m EXCEPT ![e.k] = 0]) EXCEPT !.ri = m[e.k]] ELSE [same EXCEPT !.ri = e.d]
    [] e.op = "popitem"  -> IF Dom(m) = {} THEN keyerr
                            \* any item may be returned (the archive's iteration order is its own)
                            ELSE IF Len(e.rs) = 2 /\ e.rs[1] \in Dom(m)
                                 THEN [put([m EXCEPT ![e.rs[1]] = 0]) EXCEPT !.rs = <<e.rs[1], m[e.rs[1]]>>]
                                 ELSE [same EXCEPT !.rs = <<0, 0>>]
    \* popkeys pops the keys in order: a key that is missing, or listed a second time, is "not found"; without a
    \* default that is a KeyError and - like every failing operation - nothing has been removed
    [] e.op = "popkeys"  -> IF (\A x \in ToSet(e.ks) : m[x] # 0) /\ NoDup(e.ks)
                            THEN [put(PopAll(m, e.ks)) EXCEPT !.rs = [x \in 1..Len(e.ks) |-> m[e.ks[x]]]]
                            ELSE keyerr
    [] e.op = "popkeysd" -> [put(PopAll(m, e.ks)) EXCEPT !.rs = [x \in 1..Len(e.ks) |->
                                   IF m[e.ks[x]] # 0 /\ FirstOcc(e.ks, x) THEN m[e.ks[x]] ELSE e.d]]
    [] e.op = "setdefault" -> IF m[e.k] # 0 THEN [same EXCEPT !.ri = m[e.k]]
                              ELSE [put([m EXCEPT ![e.k] = e.v]) EXCEPT !.ri = e.v]
    [] e.op \in {"update", "updatekw", "updatekwonly", "updateitems"} -> put([m EXCEPT ![e.k] = e.v, ![e.k2] = e.v2])
    [] e.op = "update0" -> same          \* d.update() with no argument at all
    \* update({k: v, k2: <a value the encoding cannot store>}): all or nothing
    [] e.op = "updatebad" -> IF e.exc = "none" THEN put([m EXCEPT ![e.k] = e.v, ![e.k2] = BAD]) ELSE [same EXCEPT !.exc = "error"]
    [] e.op = "clear"    -> put(EmptyMap(nk))
    [] e.op = "copy"     -> [same EXCEPT !.c = [S.c EXCEPT ![e.o] = m], !.ex = [S.ex EXCEPT ![e.o] = TRUE]]
    [] e.op \in {"eq", "eqx", "xeq"} -> [same EXCEPT !.ri = IF m = S.c[e.o] THEN 1 ELSE 0]
    [] e.op = "ne"       -> [same EXCEPT !.ri = IF m = S.c[e.o] THEN 0 ELSE 1]
    [] OTHER -> same

Failed(props, cfg, S, e) ==
  LET x == Exp(cfg, S, e)
      mutating == e.op \in {"set", "setbad", "del", "pop", "popd", "popitem", "popkeys", "popkeysd", "setdefault",
                            "update", "updatekw", "updatekwonly", "updateitems", "update0", "updatebad", "clear"}
      others == {l \in 1..Len(S.c) : l # e.loc /\ ~(e.op = "copy" /\ l = e.o)}
  IN   Chk(props, "C03", "C03.Raises", (x.exc = "none") = (e.exc = "none"))
  \cup Chk(props, "C03", "C03.KeyErrorExactly", (x.exc = "KeyError") = (e.exc = "KeyError"))
  \cup Chk(props, "C03", "C03.Result", (x.exc = "none" /\ e.exc = "none") => (e.ri = x.ri /\ e.rs = x.rs))
  \cup Chk(props, "C03", "C03.Contents", x.any \/ e.c[e.loc] = x.c[e.loc])
  \cup Chk(props, "C03", "C03.FailedOpChangesNothing", (e.exc # "none" /\ ~x.any) => e.c[e.loc] = S.c[e.loc])
  \cup Chk(props, "C03", "C03.ReadOnlyOpChangesNothing", ~mutating /\ e.op # "copy" => e.c = S.c)
  \cup Chk(props, "C03", "C03.OtherArchivesUntouched", \A l \in others : e.c[l] = S.c[l])
  \cup Chk(props, "C03", "C03.CopyEqualAndIndependent", e.op = "copy" => e.c[e.o] = S.c[e.loc] /\ e.c[e.loc] = S.c[e.loc])
  \cup Chk(props, "C03", "C03.LenAndKeysAgree", \A l \in 1..Len(e.c) : x.ex[l] =>
             (e.n[l] = Cardinality(Dom(e.c[l])) /\ e.kk[l] = SortedSeq(Dom(e.c[l]))))
  \cup Chk(props, "C03", "C03.NullStaysEmpty", cfg.null => \A l \in 1..Len(e.c) : Dom(e.c[l]) = {})
  \cup Chk(props, "C03", "C03.StillUsable", e.usable)
  \* C04 (same process): a fresh handle on the same location reads exactly what the operating handle reads
  \cup Chk(props, "C04", "C04.FreshHandleSeesSame", e.cf = e.c)
  \cup Chk(props, "C04", "C04.WrittenIsStored", (e.op = "set" /\ e.exc = "none" /\ ~cfg.null) => e.cf[e.loc][e.k] = e.v)

Adopt(cfg, S, e) == [c |-> e.c, ex |-> Exp(cfg, S, e).ex]
=============================================================================

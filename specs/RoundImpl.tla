------------------------------ MODULE RoundImpl ------------------------------
(***************************************************************************)
(* Layer I for C12: klepto.rounding transcribed - simple_round (top-level   *)
(* floats), deep_round (type-driven recursion: float -> round; str kept;    *)
(* dict -> deep_round over its items as keywords; any other iterable ->     *)
(* type(j)(deep_round over its elements)), shallow_round (around(): floats  *)
(* one level into an iterable, rebuilt with type(j)(list)) - and the way    *)
(* the cache decorators use them (key path only).                           *)
(*                                                                          *)
(* TLC enumerates a catalogue of argument structures (shapes with two leaf  *)
(* holes, leaves from Leaves) and checks that each transcribed rounder      *)
(* produces exactly RoundTree of layer P and never fails (ImplOK).          *)
(* Named deviations switch behaviour of the pinned commit back on:          *)
(*   "deep_dict_nonstr_keys"  deep_round passed a dict's items as keyword   *)
(*                            arguments: a dict with a non-str key raised   *)
(*                            TypeError                                     *)
(*   "shallow_str_listified"  shallow_round's around() iterated a string    *)
(*                            and rebuilt it with str(list): 'ab' became    *)
(*                            "['a', 'b']"                                  *)
(*   "iter_error_propagates"  isiterable() let every error of iter(x) but    *)
(*                            TypeError through: deep rounding of a call     *)
(*                            that holds a closed file raised ValueError     *)
(*   "deep_mapping_from_keys" deep_round rebuilt a non-dict mapping from    *)
(*                            its keys (a ChainMap of strings: no error)     *)
(*   "shallow_dict_from_keys" shallow_round rebuilt a dict argument from     *)
(*                            the list of its keys: dict(['ab'])            *)
(*   "deep_rebuild_raises"    deep_round rebuilt every iterable with        *)
(*                            type(j)(elements): range and namedtuple       *)
(*                            arguments raised TypeError                    *)
(***************************************************************************)
EXTENDS RoundP

CONSTANTS FloatIds,     \* which float leaves (see Leaf) to use
          OtherIds,     \* which non-float leaves to use
          ShapeIds,     \* which shapes to use
          TolIds,       \* tolerances, shifted by 10 (9 = -1, 10 = 0, 11 = 1, ...; 99 = None)
          Deviations

F(n, d) == [t |-> "float", v |-> n, d |-> d, c |-> <<>>]
I(n)    == [t |-> "int", v |-> n, d |-> 1, c |-> <<>>]
Str(n)  == [t |-> "str", v |-> n, d |-> 1, c |-> <<>>]
B(n)    == [t |-> "bool", v |-> n, d |-> 1, c |-> <<>>]
None    == [t |-> "none", v |-> 0, d |-> 1, c |-> <<>>]
Leaf(i) == CASE i = 1 -> F(1, 2)      \* 0.5    tol 0: 0.0
             [] i = 2 -> F(3, 2)      \* 1.5    tol 0: 2.0 (tie)
             [] i = 3 -> F(5, 2)      \* 2.5    tol 0: 2.0 (tie)
             [] i = 4 -> F(1, 8)      \* 0.125  tol 1: 0.1   tol 2: 0.12 (tie)
             [] i = 5 -> F(1, 16)     \* 0.0625 tol 1: 0.1   tol 2: 0.06
             [] i = 6 -> F(1, 4)      \* 0.25   tol 1: 0.2 (tie)
             [] i = 7 -> F(5, 32)     \* 0.15625 tol 1: 0.2  tol 2: 0.16
             [] i = 8 -> F(15, 128)   \* 0.1171875 tol 2: 0.12
             [] i = 9 -> F(12, 1)     \* 12.0   tol -1: 10.0
             [] i = 10 -> F(15, 1)    \* 15.0   tol -1: 20.0 (tie)
             [] i = 11 -> F(25, 1)    \* 25.0   tol -1: 20.0 (tie)
             [] i = 12 -> F(35, 2)    \* 17.5   tol -1: 20.0
             [] i = 13 -> F(-5, 2)    \* -2.5   tol 0: -2.0 (tie)
             [] i = 14 -> F(-3, 2)    \* -1.5   tol 0: -2.0 (tie)
             [] i = 15 -> F(-1, 32)   \* -0.03125  tol 1: -0.0   tol 2: -0.03   (used only where no leaf rounds to +0.0:
             [] i = 16 -> F(-1, 64)   \* -0.015625 tol 1: -0.0   tol 2: -0.02    whether -0.0 and 0.0 share a key is the encoder's business)
             [] i = 21 -> I(2)
             [] i = 22 -> I(15)
             [] i = 23 -> Str(100)    \* 'a'
             [] i = 24 -> B(1)        \* True
             [] i = 25 -> None
             [] i = 26 -> Str(105)    \* 'ab' : a string of two characters (iterable)
             [] i = 27 -> I(25)
             [] i = 28 -> [t |-> "iter", v |-> 2, d |-> 1, c |-> <<>>]   \* a one-shot iterator with two float items left
             [] i = 29 -> [t |-> "cls", v |-> 1, d |-> 1, c |-> <<>>]    \* a class object (int)
             [] i = 30 -> [t |-> "badit", v |-> 1, d |-> 1, c |-> <<>>]  \* an object whose iter() raises ValueError (a closed file)
             [] OTHER -> I(0)
Leaves == {Leaf(i) : i \in FloatIds \cup OtherIds}

Node(t, c) == [t |-> t, v |-> 0, d |-> 1, c |-> c]
SItem(k, x) == [t |-> "item", v |-> k, d |-> 1, c |-> <<x>>]     \* str key: 100 = 'a', 101 = 'b'
IItem(k, x) == [t |-> "item", v |-> k, d |-> 2, c |-> <<x>>]     \* int key
\* a call <<x, y>> built from two leaves
Shape(i, a, b) ==
  CASE i = 1 -> <<a, b>>
    [] i = 2 -> <<Node("list", <<a, b>>), I(0)>>
    [] i = 3 -> <<Node("tuple", <<a, b>>), I(0)>>
    [] i = 4 -> <<Node("set", <<a, b>>), I(0)>>
    [] i = 5 -> <<Node("fset", <<a, b>>), I(0)>>
    [] i = 6 -> <<Node("dict", <<SItem(100, a), SItem(101, b)>>), I(0)>>
    [] i = 7 -> <<Node("dict", <<IItem(1, a), IItem(2, b)>>), I(0)>>
    [] i = 8 -> <<Node("list", <<a, Node("list", <<b>>)>>), I(0)>>
    [] i = 9 -> <<Node("tuple", <<a, Node("tuple", <<b, Str(100)>>)>>), I(0)>>
    [] i = 10 -> <<Node("dict", <<SItem(100, Node("list", <<a>>)), SItem(101, Node("tuple", <<b>>))>>), I(0)>>
    [] i = 11 -> <<Node("list", <<Node("dict", <<SItem(100, a)>>), Node("dict", <<IItem(1, b)>>)>>), I(0)>>
    [] i = 12 -> <<Node("tuple", <<Node("fset", <<a>>), b>>), I(0)>>
    [] i = 13 -> <<I(1), Node("list", <<a, b>>)>>
    [] i = 14 -> <<a, Node("dict", <<SItem(100, b)>>)>>
    [] i = 15 -> <<a, Node("tuple", <<Node("list", <<Node("tuple", <<b>>)>>)>>)>>
    [] i = 16 -> <<Node("dict", <<IItem(1, Node("dict", <<SItem(100, a)>>)), SItem(101, b)>>), I(0)>>
    [] i = 17 -> <<[t |-> "range", v |-> 3, d |-> 1, c |-> <<>>], a>>
    [] i = 18 -> <<Node("ntuple", <<a, b>>), I(0)>>
    [] i = 19 -> <<Node("list", <<Node("ntuple", <<a, b>>), [t |-> "range", v |-> 2, d |-> 1, c |-> <<>>]>>), I(0)>>
    [] i = 20 -> <<[t |-> "ipnet", v |-> 30, d |-> 1, c |-> <<>>], a>>
    [] i = 21 -> <<Node("tuple", <<[t |-> "ipnet", v |-> 30, d |-> 1, c |-> <<>>], a>>), b>>
    \* equal sub-structures in one call (the real side also builds them as ONE shared object: f(v, v), [t, {'a': t}])
    [] i = 22 -> <<Node("tuple", <<a, b>>), Node("tuple", <<a, b>>)>>
    [] i = 23 -> <<Node("list", <<Node("tuple", <<a>>), Node("dict", <<SItem(100, Node("tuple", <<a>>))>>), b>>), Node("tuple", <<a>>)>>
    \* a mapping that is not a dict (collections.ChainMap): nothing promises rounding inside it, but it must arrive in the key whole
    [] i = 24 -> <<Node("cmap", <<SItem(100, a), SItem(101, b)>>), I(0)>>
    \* a dict argument whose key has two characters ('ab')
    [] i = 25 -> <<Node("dict", <<SItem(105, a)>>), b>>
    \* a dict SUBCLASS whose constructor does not take the items (v = 1: a collections.defaultdict): it is a dict - rounded inside
    [] i = 26 -> <<[t |-> "dict", v |-> 1, d |-> 1, c |-> <<SItem(100, a), SItem(101, b)>>], I(0)>>
    [] OTHER -> <<a, b>>
\* sets of unhashable things do not exist, and a set holding equal members collapses: keep them distinct and hashable
ValidShape(i, a, b) == (i \in {4, 5}) => ~EqT(a, b, FALSE)
Calls(i) == {Shape(i, p[1], p[2]) : p \in {q \in Leaves \X Leaves : ValidShape(i, q[1], q[2])}}

-----------------------------------------------------------------------------
FAIL == [t |-> "FAIL", v |-> 0, d |-> 1, c |-> <<>>]
RECURSIVE HasFail(_)
HasFail(x) == x.t = "FAIL" \/ \E i \in 1..Len(x.c) : HasFail(x.c[i])

(* simple_round: floats among the arguments / keyword values *)
SimpleArg(j, tol) == IF j.t = "float" THEN RoundLeaf(j, tol) ELSE j

(* deep_round *)
RECURSIVE DeepArg(_, _)
DeepArg(j, tol) ==
  IF j.t = "float" THEN RoundLeaf(j, tol)
  ELSE IF j.t = "str" THEN j
  ELSE IF j.t = "dict"
       THEN IF "deep_dict_nonstr_keys" \in Deviations /\ \E i \in 1..Len(j.c) : j.c[i].d # 1
            THEN FAIL                               \* deep_round(**j): keywords must be strings
            ELSE [j EXCEPT !.c = [i \in 1..Len(j.c) |-> [j.c[i] EXCEPT !.c = <<DeepArg(j.c[i].c[1], tol)>>]]]
  ELSE IF j.t \in {"list", "tuple", "set", "fset"}  \* isiterable: type(j)(deep_round(*j)[0])
       THEN [j EXCEPT !.c = [i \in 1..Len(j.c) |-> DeepArg(j.c[i], tol)]]
  ELSE IF j.t = "cmap"                               \* iterable: the type called with the keys is a ChainMap of the KEYS - the values are gone
       THEN IF "deep_mapping_from_keys" \in Deviations THEN Node("cmap", <<>>) ELSE j
  ELSE IF j.t = "badit"                              \* isiterable(j) calls iter(j), and only expected a TypeError
       THEN IF "iter_error_propagates" \in Deviations THEN FAIL ELSE j
  ELSE IF j.t \in {"range", "ntuple", "ipnet", "iter"}   \* iterable, but type(j)(tuple of elements) raises / an iterator is not consumed
       THEN IF "deep_rebuild_raises" \in Deviations THEN FAIL ELSE j      \* (kept as it is)
  ELSE j

(* shallow_round: type(j)(around(j, tol)), any exception -> the argument is kept *)
ShallowArg(j, tol) ==
  IF j.t = "float" THEN RoundLeaf(j, tol)
  ELSE IF j.t \in {"list", "tuple", "set", "fset"}
       THEN [j EXCEPT !.c = [i \in 1..Len(j.c) |-> IF j.c[i].t = "float" THEN RoundLeaf(j.c[i], tol) ELSE j.c[i]]]
  ELSE IF j.t = "dict" /\ "shallow_dict_from_keys" \in Deviations /\ \E i \in 1..Len(j.c) : j.c[i].v = 105
       THEN Node("dict", <<SItem(100, Str(101))>>)   \* dict(['ab']) == {'a': 'b'}
  ELSE IF j.t = "str" /\ "shallow_str_listified" \in Deviations
       THEN Str(999)                                \* str(['a', 'b'])
  ELSE j            \* not iterable, or a dict (dict(list of keys) raises: kept)

Rounder(mode, call, tol) ==
  IF tol = NoTol THEN call
  ELSE [i \in 1..Len(call) |-> CASE mode = "top" -> SimpleArg(call[i], tol)
                                 [] mode = "deep" -> DeepArg(call[i], tol)
                                 [] OTHER -> ShallowArg(call[i], tol)]

-----------------------------------------------------------------------------
VARIABLES sh, call, ph
vars == <<sh, call, ph>>
Init == sh \in ShapeIds /\ call = <<>> /\ ph = 0
Next == ph = 0 /\ \E cc \in Calls(sh) : call' = cc /\ ph' = 1 /\ UNCHANGED sh
Spec == Init /\ [][Next]_vars

TolOf(i) == IF i = NoTol THEN NoTol ELSE i - 10
Tols == {TolOf(i) : i \in TolIds}
ImplOK == ph = 1 => \A tol \in Tols : \A mode \in {"top", "deep", "shallow"} :
            LET r == Rounder(mode, call, tol)
            IN /\ \A i \in 1..Len(r) : ~HasFail(r[i])
               /\ \A i \in 1..Len(r) :
                    (EqT(r[i], RoundTree(call[i], tol, mode), TRUE) \/ (HasOpaque(call[i]) /\ EqT(r[i], call[i], TRUE)))
=============================================================================

------------------------------- MODULE FileFS -------------------------------
(***************************************************************************)
(* Layer I for file_archive as a shared durable store: the whole           *)
(* dictionary lives in one file F; every mutating method is a              *)
(* read-modify-write: __asdict__ (open + read; ANY failure reads as {}),   *)
(* edit, __save__ = creat temp, write, close, os.remove(F) (errors         *)
(* ignored), os.renames(temp, F), rmdir parent (pruning, ENOTEMPTY).       *)
(* The constructor tests os.path.exists(F) and __save__({}) when it is     *)
(* missing; klepto.archives.file_archive(name, cached=False) then calls    *)
(* update({}): one more read-modify-write.  items() iterates the keys of   *)
(* one read and then looks every key up with a read of its own.            *)
(*                                                                         *)
(* A file is [ex, ok, m]: exists, holds a complete pickle, the dictionary. *)
(* One action per file-system call; processes interleave call by call and  *)
(* may be killed between calls.                                            *)
(*                                                                         *)
(* Named deviations (the pinned commit's behaviour):                       *)
(*   "file_remove_before_rename"  F is unlinked before the rename (off =   *)
(*                                renamed over: os.replace)                *)
(*   "file_open_rewrites"         opening an existing archive rewrites it  *)
(*                                (update({}) is a read-modify-write)      *)
(*   "file_items_rereads"         items() re-reads the file per key and    *)
(*                                lets a KeyError escape                   *)
(***************************************************************************)
EXTENDS FsP

CONSTANTS NK, SCEN, CRASH, Deviations

Op(t, k, v)          == [t |-> t, k |-> k, v |-> v, k2 |-> 1, v2 |-> 0]
Op2(t, k, v, k2, v2) == [t |-> t, k |-> k, v |-> v, k2 |-> k2, v2 |-> v2]
Scenario(i) ==
  CASE i = 1  -> [init |-> <<0, 0>>,  ops |-> <<Op("set", 1, 11)>>]
    [] i = 2  -> [init |-> <<10, 20>>, ops |-> <<Op("set", 1, 11)>>]
    [] i = 3  -> [init |-> <<10, 20>>, ops |-> <<Op("del", 1, 0)>>]
    [] i = 4  -> [init |-> <<10, 20>>, ops |-> <<Op("pop", 1, 0)>>]
    [] i = 5  -> [init |-> <<10, 20>>, ops |-> <<Op("clear", 1, 0)>>]
    [] i = 6  -> [init |-> <<10, 0>>, ops |-> <<Op2("update", 1, 11, 2, 21)>>]
    [] i = 7  -> [init |-> <<10, 20>>, ops |-> <<Op("open", 1, 0)>>]
    [] i = 12 -> [init |-> <<10, 0>>, ops |-> <<Op("set", 2, 21), Op("get", 1, 0)>>]
    [] i = 13 -> [init |-> <<10, 0>>, ops |-> <<Op("set", 2, 21), Op("keys", 1, 0)>>]
    [] i = 14 -> [init |-> <<10, 0>>, ops |-> <<Op("set", 2, 21), Op("items", 1, 0)>>]
    [] i = 15 -> [init |-> <<10, 0>>, ops |-> <<Op("set", 2, 21), Op("len", 1, 0)>>]
    [] i = 16 -> [init |-> <<10, 0>>, ops |-> <<Op("set", 1, 11), Op("get", 1, 0)>>]
    [] i = 18 -> [init |-> <<10, 20>>, ops |-> <<Op("del", 1, 0), Op("items", 1, 0)>>]
    [] i = 20 -> [init |-> <<10, 0>>, ops |-> <<Op("set", 2, 21), Op("load", 1, 0)>>]
    [] i = 23 -> [init |-> <<10, 0>>, ops |-> <<Op("set", 2, 21), Op("open", 1, 0)>>]
    [] i = 24 -> [init |-> <<10, 0>>, ops |-> <<Op("set", 2, 21), Op("open", 1, 0), Op("load", 1, 0)>>]
    [] i = 29 -> [init |-> <<10, 0>>, ops |-> <<Op("contains", 1, 0), Op("set", 2, 21)>>]
    [] OTHER -> [init |-> <<0, 0>>, ops |-> <<Op("len", 1, 0)>>]
Sc == Scenario(SCEN)
NP == Len(Sc.ops)
Ops == Sc.ops

NoFile == [ex |-> FALSE, ok |-> FALSE, m |-> EmptyMap(NK)]
VARIABLES F, T, pc, loc, res, dead, sched
vars == <<F, T, pc, loc, res, dead, sched>>
View == <<F, T, pc, loc, res, dead>>
NoRes == [ok |-> TRUE, exc |-> "none", i |-> 0, m |-> EmptyMap(NK)]
KeyErr == [NoRes EXCEPT !.ok = FALSE, !.exc = "KeyError"]
Mutating(o) == o.t \in {"set", "update", "dump", "del", "pop", "clear"}

Init == /\ F = [ex |-> TRUE, ok |-> TRUE, m |-> Sc.init]
        /\ T = [p \in 1..NP |-> NoFile]
        /\ pc = [p \in 1..NP |-> IF Ops[p].t = "open" THEN "exists" ELSE "read"]
        \* memo: the dictionary read; new: what will be saved; ks: keys still to look up (items); phase of the opener
        /\ loc = [p \in 1..NP |-> [memo |-> EmptyMap(NK), new |-> EmptyMap(NK), ks |-> <<>>, acc |-> EmptyMap(NK), ph |-> 0]]
        /\ res = [p \in 1..NP |-> NoRes]
        /\ dead = [p \in 1..NP |-> FALSE]
        /\ sched = <<>>

ReadNow == IF F.ex /\ F.ok THEN F.m ELSE EmptyMap(NK)      \* any failure of open / unpickle reads as {}
Goto(p, l) == pc' = [pc EXCEPT ![p] = l]
Step(p, label) == sched' = Append(sched, <<p, label>>)
Finish(p, r) == /\ res' = [res EXCEPT ![p] = r] /\ Goto(p, "done")
RECURSIVE SetToSeq(_)
SetToSeq(S) == IF S = {} THEN <<>> ELSE LET x == CHOOSE y \in S : TRUE IN <<x>> \o SetToSeq(S \ {x})

Read(p) ==
  /\ pc[p] = "read" /\ Step(p, "open") /\ UNCHANGED <<F, T>>
  /\ LET m == ReadNow
         o == Ops[p]
     IN CASE Mutating(o) ->
               IF o.t \in {"del", "pop"} /\ m[o.k] = 0
               THEN loc' = loc /\ Finish(p, KeyErr)
               ELSE /\ loc' = [loc EXCEPT ![p].memo = m, ![p].new = Apply(m, o)]
                    /\ res' = [res EXCEPT ![p].i = IF o.t = "pop" THEN m[o.k] ELSE 0] /\ Goto(p, "creat")
          [] o.t = "open" ->      \* update({}): read-modify-write of what was read
               loc' = [loc EXCEPT ![p].memo = m, ![p].new = m] /\ res' = res /\ Goto(p, "creat")
          [] o.t = "get" -> loc' = loc /\ (IF m[o.k] # 0 THEN Finish(p, [NoRes EXCEPT !.i = m[o.k]]) ELSE Finish(p, KeyErr))
          [] o.t = "len" -> loc' = loc /\ Finish(p, [NoRes EXCEPT !.i = Cardinality(Dom(m))])
          [] o.t = "keys" -> loc' = loc /\ Finish(p, [NoRes EXCEPT !.m = [k \in 1..NK |-> IF m[k] # 0 THEN 1 ELSE 0]])
          [] o.t = "load" -> loc' = loc /\ Finish(p, [NoRes EXCEPT !.m = m])
          [] o.t = "items" ->
               IF "file_items_rereads" \in Deviations
               THEN loc' = [loc EXCEPT ![p].ks = SetToSeq(Dom(m))] /\ res' = res /\ Goto(p, "reread")
               ELSE loc' = loc /\ Finish(p, [NoRes EXCEPT !.m = m])
          [] OTHER -> loc' = loc /\ Finish(p, NoRes)
Reread(p) ==
  /\ pc[p] = "reread" /\ UNCHANGED <<F, T>>
  /\ IF loc[p].ks = <<>> THEN Step(p, "end-items") /\ loc' = loc /\ Finish(p, [NoRes EXCEPT !.m = loc[p].acc])
     ELSE LET k == Head(loc[p].ks)
              m == ReadNow
          IN /\ Step(p, "open")
             /\ IF m[k] # 0 THEN loc' = [loc EXCEPT ![p].ks = Tail(@), ![p].acc = [@ EXCEPT ![k] = m[k]]] /\ UNCHANGED <<res, pc>>
                ELSE loc' = loc /\ Finish(p, KeyErr)

Exists(p) ==    \* the constructor: if not os.path.exists(F): __save__({})
  /\ pc[p] = "exists" /\ Step(p, "stat") /\ UNCHANGED <<F, T, res>>
  /\ IF F.ex
     THEN /\ loc' = [loc EXCEPT ![p].ph = 2]
          /\ Goto(p, IF "file_open_rewrites" \in Deviations THEN "read" ELSE "done")
     ELSE loc' = [loc EXCEPT ![p].ph = 1, ![p].new = EmptyMap(NK)] /\ Goto(p, "creat")
Creat(p) == /\ pc[p] = "creat" /\ Step(p, "creat") /\ T' = [T EXCEPT ![p] = [ex |-> TRUE, ok |-> FALSE, m |-> EmptyMap(NK)]]
            /\ UNCHANGED <<F, loc, res>> /\ Goto(p, "write")
Write(p) == /\ pc[p] = "write" /\ Step(p, "write") /\ T' = [T EXCEPT ![p] = [ex |-> TRUE, ok |-> TRUE, m |-> loc[p].new]]
            /\ UNCHANGED <<F, loc, res>> /\ Goto(p, "close")
Close(p) == /\ pc[p] = "close" /\ Step(p, "close") /\ UNCHANGED <<F, T, loc, res>>
            /\ Goto(p, IF "file_remove_before_rename" \in Deviations THEN "unlink" ELSE "rename")
Unlink(p) == /\ pc[p] = "unlink" /\ Step(p, "unlink") /\ F' = NoFile /\ UNCHANGED <<T, loc, res>> /\ Goto(p, "rename")
Rename(p) == /\ pc[p] = "rename" /\ Step(p, "rename") /\ UNCHANGED <<loc, res>>
             /\ IF T[p].ex THEN F' = T[p] /\ T' = [T EXCEPT ![p] = NoFile] ELSE UNCHANGED <<F, T>>
             /\ Goto(p, IF "file_remove_before_rename" \in Deviations THEN "prune" ELSE "after")
\* os.renames pruned the source's parent (ENOTEMPTY); os.replace does not: "after" is the same step without a call
After(p) == /\ pc[p] = "after" /\ UNCHANGED <<F, T, res, sched>>
            /\ IF Ops[p].t = "open" /\ loc[p].ph = 1 /\ "file_open_rewrites" \in Deviations
               THEN loc' = [loc EXCEPT ![p].ph = 2] /\ Goto(p, "read")
               ELSE loc' = loc /\ Goto(p, "done")
Prune(p) == /\ pc[p] = "prune" /\ Step(p, "rmdir-parent") /\ UNCHANGED <<F, T, res>>
            /\ IF Ops[p].t = "open" /\ loc[p].ph = 1 /\ "file_open_rewrites" \in Deviations
               THEN loc' = [loc EXCEPT ![p].ph = 2] /\ Goto(p, "read")      \* the constructor's update({})
               ELSE loc' = loc /\ Goto(p, "done")
Kill(p) == /\ CRASH /\ pc[p] # "done" /\ ~dead[p]
           /\ dead' = [dead EXCEPT ![p] = TRUE] /\ Goto(p, "done") /\ Step(p, "KILL")
           /\ UNCHANGED <<F, T, loc, res>>
Act(p) == Read(p) \/ Reread(p) \/ Exists(p) \/ Creat(p) \/ Write(p) \/ Close(p) \/ Unlink(p) \/ Rename(p) \/ Prune(p) \/ After(p)
Next == \E p \in 1..NP : (Act(p) /\ UNCHANGED dead) \/ Kill(p)
Spec == Init /\ [][Next]_vars

Quiet == \A p \in 1..NP : pc[p] = "done"
FinalView ==     \* a fresh process: a missing or unreadable file reads as the empty dictionary (and is re-created)
  LET m == ReadNow
  IN [lenok |-> TRUE, len |-> Cardinality(Dom(m)), keysok |-> TRUE, keys |-> SetToSeq(Dom(m)),
      itemsok |-> TRUE, items |-> m, loadok |-> TRUE, load |-> m]
AtomicOK == (CRASH /\ Quiet /\ NP = 1) => FailedCrash({"C13"}, Sc.init, Ops[1], FinalView) = {}
ConcOK == (~CRASH /\ Quiet) => FailedConc({"C14"}, TRUE, Sc.init, Ops, res, FinalView) = {}
=============================================================================

------------------------------- MODULE StoreP -------------------------------
(***************************************************************************)
(* Layer P for klepto.archives.cache: an in-memory dictionary bound to an  *)
(* archive (property C08, the synchronisation algebra).                    *)
(*                                                                         *)
(* State  S = [mem, archs, cur, parked]                                    *)
(*   mem     key -> value (sequence over 1..NK, 0 = absent)                *)
(*   archs   archive id -> (key -> value); archive ids 1..NA               *)
(*   cur     archive currently bound (0 = the null archive)                *)
(*   parked  archive parked by archived(False) (0 = none)                  *)
(* Event e: op, arguments, result (ret / exc) and the observable state     *)
(* after the operation (mem, archs, cur).  `parked` is a ghost maintained  *)
(* here.  Failed(nk, na, S, e) = names of the violated clauses.            *)
(***************************************************************************)
EXTENDS Naturals, Integers, Sequences, FiniteSets, TLC

Dom(m)      == {k \in 1..Len(m) : m[k] # 0}
EmptyMap(n) == [k \in 1..n |-> 0]
Overlay(base, top) == [k \in 1..Len(base) |-> IF top[k] # 0 THEN top[k] ELSE base[k]]
ToSet(s)    == {s[x] : x \in 1..Len(s)}
Chk(name, cond) == IF cond THEN {} ELSE {name}

NoDup(q) == \A x, y \in 1..Len(q) : x # y => q[x] # q[y]
\* a list of small values as one number (the recorder does the same): <<21, 12>> -> 2112
RECURSIVE EncSeq(_)
EncSeq(q) == IF q = <<>> THEN 0 ELSE EncSeq(SubSeq(q, 1, Len(q) - 1)) * 100 + q[Len(q)]
FirstOcc(q, x) == \A y \in 1..(x - 1) : q[y] # q[x]

RECURSIVE SetToSeq(_)
SetToSeq(S) == IF S = {} THEN <<>> ELSE LET m == CHOOSE x \in S : \A y \in S : x <= y IN <<m>> \o SetToSeq(S \ {m})
ArchOf(nk, archs, c) == IF c = 0 THEN EmptyMap(nk) ELSE archs[c]
WithArch(archs, c, m) == IF c = 0 THEN archs ELSE [archs EXCEPT ![c] = m]

(* what the state must be after each operation: a function of (S, e) *)
Expected(nk, na, S, e) ==
  LET mem  == S.mem
      c    == S.cur
      ar   == ArchOf(nk, S.archs, c)
      ks   == IF "keys" \in DOMAIN e THEN ToSet(e.keys) ELSE {}
      same == [mem |-> mem, archs |-> S.archs, cur |-> c, parked |-> S.parked, exc |-> "none"]
  IN
  CASE e.op = "mset"    -> [same EXCEPT !.mem = [mem EXCEPT ![e.k] = e.v]]
    [] e.op = "mdel"    -> IF mem[e.k] # 0 THEN [same EXCEPT !.mem = [mem EXCEPT ![e.k] = 0]]
                           ELSE [same EXCEPT !.exc = "KeyError"]
    [] e.op = "mpop"    -> IF mem[e.k] # 0 THEN [same EXCEPT !.mem = [mem EXCEPT ![e.k] = 0]]
                           ELSE [same EXCEPT !.exc = "KeyError"]
    [] e.op = "mupdate" -> [same EXCEPT !.mem = [mem EXCEPT ![e.k] = e.v, ![e.k2] = e.v2]]
    [] e.op = "mclear"  -> [same EXCEPT !.mem = EmptyMap(nk)]
    [] e.op = "mget"    -> IF mem[e.k] # 0 THEN same ELSE [same EXCEPT !.exc = "KeyError"]
    [] e.op \in {"mlen", "mcontains", "mkeys"} -> same
    [] e.op = "msetdefault" -> IF mem[e.k] # 0 THEN same ELSE [same EXCEPT !.mem = [mem EXCEPT ![e.k] = e.v]]
    \* popitem removes the item it returns (which one is the dictionary's own business): e.rk is the key it reported
    [] e.op = "mpopitem" -> IF Dom(mem) = {} THEN [same EXCEPT !.exc = "KeyError"]
                            ELSE IF e.rk \in Dom(mem) THEN [same EXCEPT !.mem = [mem EXCEPT ![e.rk] = 0]]
                            ELSE [same EXCEPT !.exc = "reported a key that was not there"]
    \* cache.popkeys(keys): every key must be there (and be listed once), else KeyError and nothing is removed
    [] e.op = "mpopkeys" -> IF (\A k \in ks : mem[k] # 0) /\ NoDup(e.keys)
                            THEN [same EXCEPT !.mem = [k \in 1..nk |-> IF k \in ks THEN 0 ELSE mem[k]]]
                            ELSE [same EXCEPT !.exc = "KeyError"]
    [] e.op = "mpopkeysd" -> [same EXCEPT !.mem = [k \in 1..nk |-> IF k \in ks THEN 0 ELSE mem[k]]]
    [] e.op = "aclear"  -> [same EXCEPT !.archs = [S.archs EXCEPT ![e.x] = EmptyMap(nk)]]
    [] e.op = "aupdate" -> [same EXCEPT !.archs = [S.archs EXCEPT ![e.x] = [@ EXCEPT ![e.k] = e.v, ![e.k2] = e.v2]]]
    [] e.op = "aset"    -> [same EXCEPT !.archs = [S.archs EXCEPT ![e.x] = [@ EXCEPT ![e.k] = e.v]]]
    [] e.op = "adel"    -> IF S.archs[e.x][e.k] # 0
                           THEN [same EXCEPT !.archs = [S.archs EXCEPT ![e.x] = [@ EXCEPT ![e.k] = 0]]]
                           ELSE [same EXCEPT !.exc = "KeyError"]
    [] e.op = "load"    -> [same EXCEPT !.mem = Overlay(mem, ar)]
    [] e.op = "loadk"   -> [same EXCEPT !.mem = [k \in 1..nk |-> IF k \in ks /\ ar[k] # 0 THEN ar[k] ELSE mem[k]]]
    [] e.op = "dump"    -> [same EXCEPT !.archs = WithArch(S.archs, c, Overlay(ar, mem))]
    [] e.op = "dumpk"   -> [same EXCEPT !.archs = WithArch(S.archs, c,
                                [k \in 1..nk |-> IF k \in ks /\ mem[k] # 0 THEN mem[k] ELSE ar[k]])]
    [] e.op = "sync"    -> IF e.clear
                           THEN [same EXCEPT !.archs = WithArch(S.archs, c, mem)]
                           ELSE LET both == Overlay(ar, mem)
                                IN [same EXCEPT !.archs = WithArch(S.archs, c, both),
                                                !.mem = IF c = 0 THEN mem ELSE both]
    [] e.op = "arch_off" -> [same EXCEPT !.cur = 0, !.parked = IF c # 0 THEN c ELSE S.parked]
    [] e.op = "arch_on"  -> IF c # 0 THEN same
                            ELSE IF S.parked # 0 THEN [same EXCEPT !.cur = S.parked, !.parked = 0]
                            ELSE [same EXCEPT !.exc = "ValueError"]
    [] e.op = "open"     -> [same EXCEPT !.cur = e.x, !.parked = 0]
    \* cache.archive = x (what f.archive(x) of a decorated function does; x = 0: a null archive): from now on x is THE archive,
    \* whatever had been parked by archived(False) is forgotten
    [] e.op = "assign"   -> [same EXCEPT !.cur = e.x, !.parked = 0]
    [] e.op = "drop"     -> [same EXCEPT !.cur = 0, !.parked = 0]
    [] e.op = "archived" -> same
    [] OTHER -> same

Value(nk, S, e) ==    \* the value an operation must return (0 = none)
  CASE e.op \in {"mpop", "mget"} -> S.mem[e.k]
    [] e.op = "mlen" -> Cardinality(Dom(S.mem))
    [] e.op = "mcontains" -> IF S.mem[e.k] # 0 THEN 1 ELSE 0
    [] e.op = "mkeys" -> EncSeq(SetToSeq(Dom(S.mem)))
    [] e.op = "msetdefault" -> IF S.mem[e.k] # 0 THEN S.mem[e.k] ELSE e.v
    [] e.op = "mpopitem" -> IF e.rk \in Dom(S.mem) THEN S.mem[e.rk] ELSE 0
    [] e.op = "mpopkeys" -> EncSeq([x \in 1..Len(e.keys) |-> S.mem[e.keys[x]]])
    [] e.op = "mpopkeysd" -> EncSeq([x \in 1..Len(e.keys) |-> IF S.mem[e.keys[x]] # 0 /\ FirstOcc(e.keys, x) THEN S.mem[e.keys[x]] ELSE 77])
    [] e.op = "archived" -> IF S.cur # 0 THEN 1 ELSE 0
    [] OTHER -> 0

Failed(nk, na, S, e) ==
  LET x == Expected(nk, na, S, e)
      memop == e.op \in {"mset", "mdel", "mpop", "mupdate", "mclear", "mget", "mlen", "mcontains", "mkeys", "msetdefault",
                         "mpopitem", "mpopkeys", "mpopkeysd"}
      \* drop() with nothing bound and nothing parked raises ValueError in the code; C08 is silent: both accepted
      \* whether a direct archive mutation reports a missing key is C03's business, not C08's
      lenient == \/ e.op = "drop" /\ S.cur = 0 /\ S.parked = 0 /\ e.exc = "ValueError"
                 \/ e.op \in {"aset", "adel", "aclear", "aupdate"}
  IN   Chk("C08.Result", lenient \/ (e.exc = x.exc /\ (x.exc = "none" => e.ret = Value(nk, S, e))))
  \cup Chk("C08.Memory", e.mem = x.mem)
  \cup Chk("C08.Archive", e.archs = x.archs)
  \cup Chk("C08.Binding", e.cur = x.cur)
  \cup Chk("C08.MemOpsNeverTouchArchive", memop => e.archs = S.archs /\ e.cur = S.cur)
  \cup Chk("C08.NullStaysEmpty", e.nullsize = 0)
  \cup Chk("C08.OffMeansFrozen", (S.cur = 0 /\ e.op \in {"dump", "dumpk", "load", "loadk", "sync"})
                                   => e.archs = S.archs /\ e.mem = S.mem)

Adopt(nk, na, S, e) == [mem |-> e.mem, archs |-> e.archs, cur |-> e.cur,
                        parked |-> Expected(nk, na, S, e).parked]
=============================================================================

------------------------------- MODULE FsGen -------------------------------
(* schedules of DirFS: every complete behaviour (all processes finished) prints the interleaving it took, as
   <<process, call label>> pairs, and the results the model predicts; harness/fs_checks.py replays them on real
   processes with the stepping controller. *)
EXTENDS DirFS, Json
CONSTANT MAXSW
RECURSIVE Switches(_)
Switches(sq) == IF Len(sq) < 2 THEN 0 ELSE (IF sq[1][1] # sq[2][1] THEN 1 ELSE 0) + Switches(Tail(sq))
FewSwitches == Switches(sched) <= MAXSW
Emit == Quiet => PrintT(<<"SCHED", ToJson([sched |-> sched, res |-> res, view |-> FinalView,
                                           bad |-> FailedConc({"C14"}, FALSE, Sc.init, Ops, res, FinalView) # {}])>>)
=============================================================================

------------------------------- MODULE FsGen -------------------------------
(* schedules of DirFS: every complete behaviour (all processes finished) prints the interleaving it took, as
   <<process, call label>> pairs, and the results the model predicts; harness/fs_checks.py replays them on real
   processes with the stepping controller. *)
EXTENDS DirFS, Json
Emit == Quiet => PrintT(<<"SCHED", ToJson([sched |-> sched, res |-> res, view |-> FinalView])>>)
=============================================================================

------------------------------- MODULE CacheP -------------------------------
(***************************************************************************)
(* Layer P (property layer) for klepto's cache decorators.                 *)
(*                                                                         *)
(* What a user may rely on, independent of mechanism, written as NAMED     *)
(* CLAUSES over one step  (cfg, S, e):                                     *)
(*    cfg  the configuration of the decorated instances and of the stub    *)
(*    S    the abstract state before the step (observable part + ghosts)   *)
(*    e    the event: operation, arguments, result, and the observable     *)
(*         state after the step                                            *)
(* Failed(cfg,S,e) is the set of names of the clauses that the step        *)
(* violates.  The same operators are used                                  *)
(*   - by CacheTrace.tla to judge steps recorded from the real code, and   *)
(*   - by CacheImpl.tla (the implementation-shaped layer I) as the         *)
(*     refinement obligation  [][Failed(...) = {}]_vars  that TLC checks   *)
(*     exhaustively.                                                       *)
(* Clause names are prefixed by the property they belong to (C01.Ret ...). *)
(*                                                                         *)
(* Encoding.  Keys are 1..NK; a map key->value is a sequence of length NK  *)
(* with 0 for "absent" (real values are never 0).  Instances are 1..NI,    *)
(* archives 1..NA; cur[i] = 0 means "no archive bound" (null archive).     *)
(* info[i] = <<hit, miss, load, maxsize, size>> with maxsize -1 for None.  *)
(***************************************************************************)
EXTENDS Naturals, Integers, Sequences, FiniteSets, TLC

Dom(m)      == {k \in 1..Len(m) : m[k] # 0}
Size(m)     == Cardinality(Dom(m))
MaxOf(a, b) == IF a >= b THEN a ELSE b
EmptyMap(n) == [k \in 1..n |-> 0]
Overlay(base, top) == [k \in 1..Len(base) |-> IF top[k] # 0 THEN top[k] ELSE base[k]]
ToSet(s)    == {s[x] : x \in 1..Len(s)}

\* a clause is only evaluated when its property is selected (TLC evaluates IF lazily)
Chk(props, p, name, cond) == IF p \notin props THEN {} ELSE IF cond THEN {} ELSE {<<p, name>>}

(***************************************************************************)
(* cfg = [ nk, na, ni,                                                     *)
(*         keyof : arg -> key,  f : arg -> value (0 when it raises),       *)
(*         kind  : arg -> "ok" | "raise" | "unkey" | "unkeyraise",         *)
(*         fk    : key -> value,                                           *)
(*         inst  : i -> [alg, maxsize, purge, safe],                       *)
(*         shared: archive ids that are shared storage between instances ] *)
(* alg is the EFFECTIVE algorithm: "no" when maxsize = 0, "inf" when       *)
(* maxsize is None (-1), else one of "lfu" "lru" "mru" "rr".               *)
(*                                                                         *)
(* S = [ mem, archs, cur, info,  -- observable, adopted from the event     *)
(*       g : i -> [last, uses, clock, taint, parked] ]  -- ghosts          *)
(***************************************************************************)

NoArch(cfg) == EmptyMap(cfg.nk)
ArchOf(cfg, archs, c) == IF c = 0 THEN NoArch(cfg) ELSE archs[c]

\* classification of a call by the state BEFORE it - this is the heart of C02/C15
CallClass(cfg, S, i, a) ==
  LET k    == cfg.keyof[a]
      alg  == cfg.inst[i].alg
      res  == S.mem[i][k] # 0
      ina  == S.cur[i] # 0 /\ ArchOf(cfg, S.archs, S.cur[i])[k] # 0
  IN IF cfg.kind[a] = "unkey" THEN "fallback"
     ELSE IF cfg.kind[a] = "unkeyraise" THEN "raise"      \* cannot be keyed AND the function raises for it
     ELSE IF alg = "no" THEN (IF res \/ ina THEN "load"
                              ELSE IF cfg.kind[a] = "raise" THEN "raise" ELSE "miss")
     ELSE IF res THEN "hit"
     ELSE IF ina THEN "load"
     ELSE IF cfg.kind[a] = "raise" THEN "raise" ELSE "miss"

Unit(class) == IF class = "hit" THEN <<1,0,0>> ELSE IF class = "load" THEN <<0,0,1>>
               ELSE IF class \in {"miss","fallback"} THEN <<0,1,0>> ELSE <<0,0,0>>

\* the use counts after this call (for LFU): the called key gains one use
UsesAfter(cfg, S, i, k) ==
  [kk \in 1..cfg.nk |-> IF kk = k THEN (IF S.mem[i][k] # 0 THEN S.g[i].uses[k] + 1 ELSE 1)
                        ELSE S.g[i].uses[kk]]

ArgMin(set, fn) == CHOOSE x \in set : \A y \in set : fn[x] <= fn[y]
ArgMax(set, fn) == CHOOSE x \in set : \A y \in set : fn[x] >= fn[y]

-----------------------------------------------------------------------------
(* A call f(args) through instance i *)
CallFailed(props, cfg, S, e) ==
  LET i      == e.i
      a      == e.a
      k      == cfg.keyof[a]
      val    == cfg.f[a]
      ic     == cfg.inst[i]
      alg    == ic.alg
      maxs   == ic.maxsize
      mem    == S.mem[i]
      mem2   == e.mem[i]
      c      == S.cur[i]
      arched == c # 0
      arch   == ArchOf(cfg, S.archs, c)
      arch2  == ArchOf(cfg, e.archs, c)
      class  == CallClass(cfg, S, i, a)
      mid    == Dom(mem) \cup {k}                \* resident keys once this call's key is in
      V      == mid \ Dom(mem2)                  \* what left memory in this step
      newval == IF mem[k] # 0 THEN mem[k] ELSE IF arched /\ arch[k] # 0 THEN arch[k] ELSE val
      purged == ic.purge /\ arched /\ class # "hit" /\ maxs > 0 /\ Cardinality(mid) > maxs
      overfl == class # "hit" /\ maxs > 0 /\ Cardinality(mid) > maxs /\ ~purged
      U      == UsesAfter(cfg, S, i, k)
      inf    == S.info[i]
      inf2   == e.info[i]
      u      == Unit(class)
      others == \A j \in 1..cfg.ni : j # i => e.mem[j] = S.mem[j] /\ e.info[j] = S.info[j]
      bound  == maxs >= 0 => Size(mem2) <= MaxOf(maxs, Size(mem))
      hitKeeps == class = "hit" => V = {}
      noOverflowKeeps == (maxs > 0 /\ Cardinality(mid) <= maxs) => V = {}
      \* (entries that came in by a bulk load have no recorded use: the recency / frequency policies are not judged while
      \* such entries may be resident; "exactly one" of the random policy does not depend on recorded uses)
      policy == (overfl /\ (~S.g[i].taint \/ alg = "rr") /\ Dom(mem) # {}) =>
             CASE alg = "lru" -> V = {ArgMin(Dom(mem), S.g[i].last)}
               [] alg = "mru" -> V = {ArgMax(Dom(mem), S.g[i].last)}
               [] alg = "lfu" -> V # {} /\ \A v \in V : \A w \in Dom(mem2) : U[v] <= U[w]
               [] alg = "rr"  -> Cardinality(V) = 1
               [] OTHER       -> TRUE
  IN
  IF "rfault" \in DOMAIN e THEN
     \* the harness made the archive's next READ fail while this call's result is archived and not resident: whatever
     \* the call does about the failure, the function must not be evaluated - its result is in the archive
       Chk(props, "C02", "C02.NoEvaluationWhileArchived", class = "load" => e.ev = <<>>)
  ELSE IF class \in {"hit", "load", "miss"} THEN
       Chk(props, "C01", "C01.Ret", e.exc = "none" /\ e.ret = val)
  \cup Chk(props, "C01", "C01.MemSound", \A kk \in 1..cfg.nk : mem2[kk] \in {0, cfg.fk[kk]})
  \cup Chk(props, "C01", "C01.ArchSound", \A x \in 1..cfg.na : \A kk \in 1..cfg.nk : e.archs[x][kk] \in {0, cfg.fk[kk]})
  \cup Chk(props, "C02", "C02.Eval", e.ev = IF class = "miss" THEN <<a>> ELSE <<>>)
  \cup Chk(props, "C02", "C02.MissStores", class = "miss" =>
             \/ mem2[k] = val
             \/ arched /\ arch2[k] = val
             \/ ~arched /\ (alg \in {"no", "lfu", "rr"} \/ S.g[i].taint))
  \cup Chk(props, "C05", "C05.Bound", bound)
  \cup Chk(props, "C05", "C05.ZeroKeepsNothing", alg = "no" => Size(mem2) = 0)
  \cup Chk(props, "C05", "C05.UnboundedKeeps", maxs = -1 => mid \subseteq Dom(mem2))
  \cup Chk(props, "C05", "C05.PurgeEmpties", purged => Size(mem2) = 0)
  \cup Chk(props, "C06", "C06.HitKeeps", hitKeeps)
  \cup Chk(props, "C06", "C06.NoOverflowKeeps", noOverflowKeeps)
  \cup Chk(props, "C06", "C06.NothingAppears", Dom(mem2) \subseteq mid)
  \cup Chk(props, "C06", "C06.Policy", policy)
  \* a call that raised / a lookup() or key() must leave later evictions exactly as they would have been
  \cup Chk(props, "C16", "C16.LaterEvictionsUnaffected", S.g[i].raised => (bound /\ hitKeeps /\ noOverflowKeeps /\ policy))
  \cup Chk(props, "C16", "C16.SafeNeverFails", ic.safe => e.exc = "none")
  \cup Chk(props, "C18", "C18.EvictionUndisturbed", S.g[i].peeked => (bound /\ hitKeeps /\ noOverflowKeeps /\ policy))
  \cup Chk(props, "C07", "C07.EvictedArchived", arched => \A kk \in V :
             arch2[kk] = (IF kk = k THEN newval ELSE mem[kk]))
  \cup Chk(props, "C07", "C07.ArchMonotone", arched => \A kk \in Dom(arch) : arch2[kk] = arch[kk])
  \cup Chk(props, "C07", "C07.NothingInvented", arched => \A kk \in Dom(arch2) \ Dom(arch) : kk \in mid /\ arch2[kk] = (IF kk = k THEN newval ELSE mem[kk]))
  \cup Chk(props, "C07", "C07.OtherArchivesUntouched", \A x \in 1..cfg.na : x # c => e.archs[x] = S.archs[x])
  \cup Chk(props, "C07", "C07.BindingStable", e.cur = S.cur)
  \cup Chk(props, "C07", "C07.Retrievable", arched => \A kk \in S.g[i].kept \cup (IF class = "miss" THEN {k} ELSE {}) :
                                         mem2[kk] # 0 \/ arch2[kk] # 0)
  \cup Chk(props, "C02", "C02.AtMostOnceWhileArchived", class = "miss" => k \notin S.g[i].kept)
  \cup Chk(props, "C15", "C15.Count", <<inf2[1], inf2[2], inf2[3]>> = <<inf[1] + u[1], inf[2] + u[2], inf[3] + u[3]>>)
  \cup Chk(props, "C15", "C15.Size", inf2[5] = Size(mem2))
  \cup Chk(props, "C15", "C15.Maxsize", inf2[4] = maxs)
  \cup Chk(props, "C20", "C20.Independent", others)
  \* a restored copy answers, evaluates and counts exactly as the model of the original does from the same state
  \cup Chk(props, "C20", "C20.CopyBehavesLikeOriginal", S.g[i].copy =>
             /\ e.exc = "none" /\ e.ret = val
             /\ e.ev = (IF class = "miss" THEN <<a>> ELSE <<>>)
             /\ <<inf2[1], inf2[2], inf2[3]>> = <<inf[1] + u[1], inf[2] + u[2], inf[3] + u[3]>>
             /\ inf2[5] = Size(mem2) /\ bound)
  \cup Chk(props, "C18", "C18.StoredUnderKey", mem2[cfg.nk] = 0 /\ \A x \in 1..cfg.na : e.archs[x][cfg.nk] = 0)
  ELSE IF class = "raise" THEN
       Chk(props, "C16", "C16.SameException", e.exc = "same" /\ e.ret = 0)
  \cup Chk(props, "C16", "C16.OneEvaluation", e.ev = <<a>>)
  \cup Chk(props, "C16", "C16.NoTrace", e.mem = S.mem /\ e.archs = S.archs /\ e.cur = S.cur)
  \cup Chk(props, "C16", "C16.StatsUntouched", e.info = S.info)
  \cup Chk(props, "C15", "C15.RaiseNotCounted", e.info = S.info)
  ELSE \* "fallback": a safe decorator and arguments that cannot be turned into a key
       Chk(props, "C16", "C16.Fallback", e.exc = "none" /\ e.ret = val /\ e.ev = <<a>>)
  \cup Chk(props, "C16", "C16.FallbackFrame", Dom(mem2) \subseteq Dom(mem) /\ e.cur = S.cur
                                 /\ \A x \in 1..cfg.na : \A kk \in Dom(S.archs[x]) : e.archs[x][kk] = S.archs[x][kk])
  \cup Chk(props, "C15", "C15.FallbackMiss", <<inf2[1], inf2[2], inf2[3]>> = <<inf[1], inf[2] + 1, inf[3]>> /\ inf2[5] = Size(mem2))
  \cup Chk(props, "C20", "C20.Independent", others)

-----------------------------------------------------------------------------
(* Management operations exposed on the wrapper.  Their algebra is C08;     *)
(* clear/info are C15; key/lookup are C18.                                  *)

Frame(cfg, S, e, i, what) ==   \* everything not named in `what` is unchanged
     ("mem"   \in what \/ e.mem[i] = S.mem[i])
  /\ ("archs" \in what \/ e.archs = S.archs)
  /\ ("cur"   \in what \/ e.cur = S.cur)
  /\ (\A j \in 1..cfg.ni : j # i => e.mem[j] = S.mem[j] /\ e.info[j] = S.info[j] /\ e.cur[j] = S.cur[j])

StatsSame(S, e, i) == <<e.info[i][1], e.info[i][2], e.info[i][3], e.info[i][4]>>
                    = <<S.info[i][1], S.info[i][2], S.info[i][3], S.info[i][4]>>

MgmtFailed(props, cfg, S, e) ==
  LET i      == e.i
      mem    == S.mem[i]
      mem2   == e.mem[i]
      c      == S.cur[i]
      arched == c # 0
      arch   == ArchOf(cfg, S.archs, c)
      arch2  == ArchOf(cfg, e.archs, c)
      ks     == IF "keys" \in DOMAIN e THEN ToSet(e.keys) ELSE {}
      sizeok == e.info[i][5] = Size(mem2)
      noeval == e.ev = <<>>
  IN
  CASE e.op = "load" ->
         Chk(props, "C08", "C08.Load", e.exc = "none" /\ mem2 = Overlay(mem, arch))
    \cup Chk(props, "C08", "C08.LoadFrame", Frame(cfg, S, e, i, {"mem"}) /\ noeval)
    \cup Chk(props, "C15", "C15.MgmtStats", StatsSame(S, e, i) /\ sizeok)
  [] e.op = "loadk" ->
         Chk(props, "C08", "C08.LoadKeys", e.exc = "none" /\ mem2 = [kk \in 1..cfg.nk |->
                  IF kk \in ks /\ arch[kk] # 0 THEN arch[kk] ELSE mem[kk]])
    \cup Chk(props, "C08", "C08.LoadFrame", Frame(cfg, S, e, i, {"mem"}) /\ noeval)
    \cup Chk(props, "C15", "C15.MgmtStats", StatsSame(S, e, i) /\ sizeok)
  [] e.op = "dump" ->
         Chk(props, "C08", "C08.Dump", e.exc = "none" /\ (arched => arch2 = Overlay(arch, mem)))
    \cup Chk(props, "C08", "C08.DumpFrame", Frame(cfg, S, e, i, {"archs"}) /\ noeval
                /\ \A x \in 1..cfg.na : x # c => e.archs[x] = S.archs[x])
    \cup Chk(props, "C15", "C15.MgmtStats", StatsSame(S, e, i) /\ sizeok)
  [] e.op = "dumpk" ->
         Chk(props, "C08", "C08.DumpKeys", e.exc = "none" /\ (arched => arch2 = [kk \in 1..cfg.nk |->
                  IF kk \in ks /\ mem[kk] # 0 THEN mem[kk] ELSE arch[kk]]))
    \cup Chk(props, "C08", "C08.DumpFrame", Frame(cfg, S, e, i, {"archs"}) /\ noeval
                /\ \A x \in 1..cfg.na : x # c => e.archs[x] = S.archs[x])
    \cup Chk(props, "C15", "C15.MgmtStats", StatsSame(S, e, i) /\ sizeok)
  [] e.op = "sync" ->       \* f.__cache__().sync(clear): [archive.clear();] dump(); [load()]
         LET both == Overlay(arch, mem) IN
         Chk(props, "C08", "C08.Sync", e.exc = "none" /\ (IF ~arched THEN mem2 = mem
                                                     ELSE IF e.clear THEN arch2 = mem /\ mem2 = mem
                                                     ELSE arch2 = both /\ mem2 = both))
    \cup Chk(props, "C08", "C08.SyncFrame", Frame(cfg, S, e, i, {"mem", "archs"}) /\ noeval
                /\ \A x \in 1..cfg.na : x # c => e.archs[x] = S.archs[x])
    \cup Chk(props, "C07", "C07.SyncKeepsResident", arched => \A kk \in Dom(mem) : arch2[kk] = mem[kk] /\ mem2[kk] = mem[kk])
    \cup Chk(props, "C15", "C15.MgmtStats", StatsSame(S, e, i) /\ sizeok)
  [] e.op = "clear" ->
         Chk(props, "C15", "C15.ClearEmpties", e.exc = "none" /\ Size(mem2) = 0)
    \cup Chk(props, "C15", "C15.ClearStats", (IF e.keep THEN StatsSame(S, e, i)
                               ELSE <<e.info[i][1], e.info[i][2], e.info[i][3]>> = <<0,0,0>> /\ e.info[i][4] = S.info[i][4])
                              /\ sizeok)
    \cup Chk(props, "C08", "C08.ClearFrame", Frame(cfg, S, e, i, {"mem"}) /\ noeval)
  [] e.op = "arch_off" ->
         Chk(props, "C08", "C08.ToggleOff", e.exc = "none" /\ e.cur[i] = 0)
    \cup Chk(props, "C08", "C08.ToggleFrame", Frame(cfg, S, e, i, {"cur"}) /\ noeval)
    \cup Chk(props, "C15", "C15.MgmtStats", StatsSame(S, e, i) /\ sizeok)
  [] e.op = "arch_on" ->
         Chk(props, "C08", "C08.ToggleOn",
               IF c # 0 THEN e.exc = "none" /\ e.cur[i] = c
               ELSE IF S.g[i].parked # 0 THEN e.exc = "none" /\ e.cur[i] = S.g[i].parked
               ELSE e.exc = "ValueError" /\ e.cur[i] = 0)
    \cup Chk(props, "C08", "C08.ToggleFrame", Frame(cfg, S, e, i, {"cur"}) /\ noeval)
    \cup Chk(props, "C15", "C15.MgmtStats", StatsSame(S, e, i) /\ sizeok)
  [] e.op = "set_archive" ->
         Chk(props, "C08", "C08.SetArchive", e.exc = "none" /\ e.cur[i] = e.x)
    \cup Chk(props, "C08", "C08.ToggleFrame", Frame(cfg, S, e, i, {"cur"}) /\ noeval)
    \cup Chk(props, "C15", "C15.MgmtStats", StatsSame(S, e, i) /\ sizeok)
  [] e.op = "lookup" ->
         Chk(props, "C18", "C18.Lookup", LET k == cfg.keyof[e.a] IN
               IF mem[k] # 0 THEN e.exc = "none" /\ e.ret = mem[k]
               ELSE e.exc = "KeyError")
    \cup Chk(props, "C18", "C18.LookupPure", Frame(cfg, S, e, i, {}) /\ e.info = S.info /\ noeval)
  [] e.op = "key" ->
         Chk(props, "C18", "C18.Key", e.exc = "none" /\ e.ret = cfg.keyof[e.a])
    \cup Chk(props, "C18", "C18.KeyPure", Frame(cfg, S, e, i, {}) /\ e.info = S.info /\ noeval)
  [] e.op = "info" ->
         Chk(props, "C15", "C15.InfoPure", Frame(cfg, S, e, i, {}) /\ e.info = S.info /\ noeval)
    \cup Chk(props, "C15", "C15.Size", e.info[i][5] = Size(mem2))
  \* the decorator OBJECT of instance i also decorates a sibling function (same signature, same values), and that sibling
  \* is called: the two wrappers share the cache by construction, so memory and archive may change - but the statistics
  \* that f.info() reports are an account of the calls made to f
  [] e.op = "sibcall" ->
         Chk(props, "C15", "C15.SiblingCallsNotCounted", StatsSame(S, e, i))
    \cup Chk(props, "C15", "C15.Size", e.info[i][5] = Size(mem2))
  [] e.op = "wrapped" ->
         Chk(props, "C18", "C18.Wrapped", e.exc = "none" /\ e.ret = 1 /\ Frame(cfg, S, e, i, {}) /\ e.info = S.info)
  [] e.op = "arm_fault" ->  \* the harness arms a one-shot write failure in the bound archive: no state change
         Chk(props, "C07", "C07.ArmFrame", Frame(cfg, S, e, i, {}) /\ e.info = S.info)
  [] e.op = "decorate" ->   \* creating instance i (first event of a trace, or re-decoration)
         Chk(props, "C05", "C05.Decorate", e.exc = "none")
    \cup Chk(props, "C15", "C15.Maxsize", e.exc = "none" => e.info[i][4] = cfg.inst[i].maxsize)
  [] e.op = "clone" ->      \* j := dill.loads(dill.dumps(i)); "inflight": taken by another thread while a call of i
                            \* is inside the wrapped function - the reference is then the original as observed at that moment
         LET j   == e.j
             ref == IF "inflight" \in DOMAIN e THEN e ELSE S
         IN
         Chk(props, "C20", "C20.CloneEqual", e.exc = "none" /\ e.mem[j] = ref.mem[i] /\ e.info[j] = ref.info[i]
                               /\ (IF ref.cur[i] = 0 THEN e.cur[j] = 0
                                   ELSE e.cur[j] # 0 /\ e.archs[e.cur[j]] = ref.archs[ref.cur[i]]))
    \cup Chk(props, "C20", "C20.CloneLeavesOriginal", e.mem[i] = ref.mem[i] /\ e.info[i] = ref.info[i] /\ e.cur[i] = ref.cur[i]
                               /\ \A x \in 1..cfg.na : x # e.cur[j] => e.archs[x] = ref.archs[x])
  [] OTHER -> {<<"ALL", "Trace.UnknownOp">>}

(* lock-step continuation after a dill round trip: the same operation was just applied to the   *)
(* original (e.mirror) and must have had the same effect on the copy (e.i)                     *)
MirrorFailed(props, cfg, S, e) ==
  IF "mirror" \in DOMAIN e
  THEN LET same == /\ e.mem[e.i] = e.mem[e.mirror] /\ e.info[e.i] = e.info[e.mirror]
                   /\ e.ret = e.mret /\ e.exc = e.mexc
       IN Chk(props, "C20", "C20.LockStep", same)
          \* C18 / C16 as a difference: instance e.mirror also received key()/lookup() queries (or calls that raised) in
          \* between, its twin e.i did not - they must not be able to tell
     \cup Chk(props, "C18", "C18.TwinWithoutQueriesAgrees", same)
     \cup Chk(props, "C16", "C16.TwinWithoutRaisingCallsAgrees", same)
  ELSE {}

(* an operation that never returned (the recorder gave up waiting): the decorated function, or its  *)
(* restored copy, is unusable                                                                      *)
BlockedFailed(props, e) ==
       Chk(props, "C01", "C01.NeverBlocks", e.exc # "Blocked")
  \cup Chk(props, "C20", "C20.NeverBlocks", e.exc # "Blocked")

Failed(props, cfg, S, e) == (IF e.op = "call" THEN CallFailed(props, cfg, S, e) ELSE MgmtFailed(props, cfg, S, e))
                            \cup MirrorFailed(props, cfg, S, e) \cup BlockedFailed(props, e)

-----------------------------------------------------------------------------
(* Ghost update: recency, frequency, taint (entries that entered memory     *)
(* without a recorded use), the archive parked by archived(False).          *)

GhostAfter(cfg, S, e) ==
  LET i == e.i
      g == S.g[i]
  IN
  IF e.op = "call" /\ "rfault" \in DOMAIN e /\ e.exc # "none" THEN S.g   \* the call failed on the injected fault
  ELSE IF e.op = "call" THEN
     LET a == e.a
         k == cfg.keyof[a]
         class == CallClass(cfg, S, i, a)
     IN IF class \in {"hit", "load", "miss"} THEN
          LET U  == UsesAfter(cfg, S, i, k)
              cl == g.clock + 1
              m2 == e.mem[i]
          IN [S.g EXCEPT ![i] = [g EXCEPT
                 !.clock = cl,
                 !.last  = [kk \in 1..cfg.nk |-> IF m2[kk] = 0 THEN 0 ELSE IF kk = k THEN cl ELSE g.last[kk]],
                 !.uses  = [kk \in 1..cfg.nk |-> IF m2[kk] = 0 THEN 0 ELSE U[kk]],
                 !.taint = g.taint /\ Size(m2) > 0,
                 !.kept  = IF class = "miss" /\ S.cur[i] # 0 THEN g.kept \cup {k} ELSE g.kept ]]
        ELSE IF class = "raise" THEN [S.g EXCEPT ![i] = [g EXCEPT !.raised = TRUE]]
        ELSE S.g
  ELSE IF e.op \in {"load", "loadk", "sibcall"} THEN   \* (sibcall: entries may enter memory without a use recorded by THIS wrapper)
     [S.g EXCEPT ![i] = [g EXCEPT !.taint = g.taint \/ Dom(e.mem[i]) # Dom(S.mem[i])]]
  ELSE IF e.op = "sync" THEN   \* sync(clear=True) empties the archive first: what was only there has been cleared explicitly
     [S.g EXCEPT ![i] = [g EXCEPT !.taint = g.taint \/ Dom(e.mem[i]) # Dom(S.mem[i]),
                                  !.kept = IF e.clear THEN g.kept \cap Dom(S.mem[i]) ELSE g.kept]]
  ELSE IF e.op = "clear" THEN
     [S.g EXCEPT ![i] = [g EXCEPT !.taint = Size(e.mem[i]) > 0,
                                  !.last = EmptyMap(cfg.nk), !.uses = EmptyMap(cfg.nk),
                                  !.kept = g.kept \cap Dom(ArchOf(cfg, S.archs, S.cur[i])),
                                  !.raised = FALSE, !.peeked = FALSE]]
  ELSE IF e.op = "arch_off" THEN
     [S.g EXCEPT ![i] = [g EXCEPT !.parked = IF S.cur[i] # 0 THEN S.cur[i] ELSE g.parked, !.kept = {}]]
  ELSE IF e.op \in {"arch_on", "set_archive"} THEN
     \* from now on every resident entry must stay retrievable: when it leaves memory it has to reach the archive
     \* that is bound NOW (entries that were only in the archive bound before are legitimately out of reach)
     [S.g EXCEPT ![i] = [g EXCEPT !.parked = 0, !.kept = IF e.cur[i] # 0 THEN Dom(e.mem[i]) ELSE {}]]
  ELSE IF e.op = "clone" THEN
     [S.g EXCEPT ![e.j] = [g EXCEPT !.copy = TRUE]]
  ELSE IF e.op \in {"lookup", "key"} THEN
     [S.g EXCEPT ![i] = [g EXCEPT !.peeked = TRUE]]
  ELSE IF e.op = "decorate" THEN
     [S.g EXCEPT ![i] = [g EXCEPT !.taint = Size(e.mem[i]) > 0, !.kept = {}]]
  ELSE S.g

Ghost0(cfg) == [i \in 1..cfg.ni |->
                 [last |-> EmptyMap(cfg.nk), uses |-> EmptyMap(cfg.nk), clock |-> 0,
                  taint |-> FALSE, parked |-> 0, kept |-> {},
                  raised |-> FALSE, peeked |-> FALSE, copy |-> FALSE]]

Adopt(cfg, S, e) == [mem |-> e.mem, archs |-> e.archs, cur |-> e.cur, info |-> e.info,
                     g |-> GhostAfter(cfg, S, e)]

Names2(failed) == {x[2] : x \in failed}
=============================================================================

------------------------------ MODULE FsTrace ------------------------------
(* trace validation of real crash / concurrency runs against FsP (total: see CacheTrace).
   A trace is one run: events[1] = [kind ("crash" / "conc"), single, M, ops, res, view]. *)
EXTENDS FsP, Json, IOUtils, TLCExt
CONSTANT Props
J == JsonDeserialize(IOEnv.TRACE_FILE)
T == J.traces
VARIABLES tid, l, rej
vars == <<tid, l, rej>>
TraceInit == tid \in 1..Len(T) /\ l = 0 /\ rej = {}
TraceNext ==
  /\ rej = {}
  /\ l < Len(T[tid].events)
  /\ LET e == T[tid].events[l + 1]
         bad == Names2(IF e.kind = "crash" THEN FailedCrash(Props, e.M, e.ops[1], e.view)
                       ELSE FailedConc(Props, e.single, e.M, e.ops, e.res, e.view))
     IN IF bad = {}
        THEN /\ l' = l + 1 /\ UNCHANGED <<tid, rej>>
        ELSE /\ rej' = bad /\ PrintT(<<"REJECT", tid, l + 1, bad>>) /\ UNCHANGED <<tid, l>>
TraceSpec == TraceInit /\ [][TraceNext]_vars
=============================================================================

----------------------------- MODULE CacheTrace -----------------------------
(***************************************************************************)
(* Trace validation of real klepto executions against layer P (CacheP).    *)
(* Input: JSON  {"traces": [ {"cfg": ..., "init": ..., "events": [...]} ]} *)
(* The specification is TOTAL: every trace is walked until its end or      *)
(* until the first event for which a selected clause fails; that event is  *)
(* reported as  <<"REJECT", tid, index, {clause names}>>.                  *)
(* The observable state is adopted from the log after every event; the     *)
(* ghosts are maintained here.  Props selects the properties whose clauses *)
(* are judged (state adoption is independent of it).                       *)
(***************************************************************************)
EXTENDS CacheP, Json, IOUtils, TLCExt

CONSTANT Props

J == JsonDeserialize(IOEnv.TRACE_FILE)
T == J.traces

VARIABLES tid, l, S, rej
vars == <<tid, l, S, rej>>

State0(t) == [mem |-> t.init.mem, archs |-> t.init.archs, cur |-> t.init.cur,
              info |-> t.init.info, g |-> Ghost0(t.cfg)]

TraceInit == /\ tid \in 1..Len(T)
             /\ l = 0
             /\ S = State0(T[tid])
             /\ rej = {}

TraceNext ==
  /\ rej = {}
  /\ l < Len(T[tid].events)
  /\ LET e   == T[tid].events[l + 1]
         cfg == T[tid].cfg
         bad == Names2(Failed(Props, cfg, S, e))
     IN IF bad = {}
        THEN /\ l' = l + 1
             /\ S' = Adopt(cfg, S, e)
             /\ UNCHANGED <<tid, rej>>
        ELSE /\ rej' = bad
             /\ PrintT(<<"REJECT", tid, l + 1, bad>>)
             /\ UNCHANGED <<tid, l, S>>

TraceSpec == TraceInit /\ [][TraceNext]_vars
=============================================================================

------------------------------ MODULE StoreGen ------------------------------
(* behaviour generation from StoreImpl: complete walks print their operation history as JSON *)
EXTENDS StoreImpl, Json
Emit == (n = DEPTH) => PrintT(<<"HIST", ToJson([ops |-> hist])>>)
=============================================================================

------------------------------- MODULE RoundP -------------------------------
(***************************************************************************)
(* Layer P for the rounding tolerance of cache keys (property C12).        *)
(*                                                                         *)
(* A value is a tree.  A node is a record [t, v, d, c]:                    *)
(*   t = "float"  the exact rational v / d   (floats are generated as      *)
(*                dyadic rationals, so the binary float IS that rational   *)
(*                and Python's correctly rounded round() must agree with   *)
(*                exact half-to-even rounding: no tolerance band)          *)
(*   t = "int" / "bool"   the integer v (d = 1)                            *)
(*   t = "str"    string with code v;  t = "none"  None                    *)
(*   t = "list" / "tuple" / "set" / "fset"   children c                    *)
(*   t = "dict"   children are "item" nodes: v = key code, d = 1 for a     *)
(*                str key and 2 for an int key, c = <<value>>              *)
(*   t = "range"  range(v);  t = "ntuple"  a namedtuple with children c;   *)
(*   t = "ipnet"  an ipaddress network (iterable; its constructor rejects  *)
(*                a tuple of its elements with ValueError):                *)
(*                containers a generic rounder cannot rebuild with         *)
(*                type(x)(elements)                                        *)
(*   t = "other"  something the recorder could not describe                *)
(* A call binds two parameters: call = <<x, y>> (def f(x, y=0)).           *)
(*                                                                         *)
(* RoundTree(x, tol, mode): the oracle.  tol = NoTol disables rounding.    *)
(*   mode "top"      floats at the top level only (cache default,          *)
(*                   simple_round)                                         *)
(*   mode "shallow"  top level and one level into list/tuple/set           *)
(*                   (shallow_round)                                       *)
(*   mode "deep"     floats at any depth inside lists, tuples, sets and    *)
(*                   dicts (deep=True, deep_round)                         *)
(***************************************************************************)
EXTENDS Naturals, Integers, Sequences, FiniteSets, TLC

NoTol == 99
ToSet(s) == {s[x] : x \in 1..Len(s)}
Chk(props, p, name, cond) == IF p \notin props THEN {} ELSE IF cond THEN {} ELSE {<<p, name>>}
Names2(failed) == {x[2] : x \in failed}

RECURSIVE Pow10(_)
Pow10(n) == IF n = 0 THEN 1 ELSE 10 * Pow10(n - 1)
\* nearest integer to a / b (b > 0), ties to the even neighbour
RoundDiv(a, b) == LET q == a \div b
                      r == a - q * b
                  IN IF 2 * r < b THEN q ELSE IF 2 * r > b THEN q + 1 ELSE IF q % 2 = 0 THEN q ELSE q + 1
RoundLeaf(x, tol) ==
  IF tol >= 0 THEN [t |-> "float", v |-> RoundDiv(x.v * Pow10(tol), x.d), d |-> Pow10(tol), c |-> <<>>]
  ELSE [t |-> "float", v |-> RoundDiv(x.v, x.d * Pow10(0 - tol)) * Pow10(0 - tol), d |-> 1, c |-> <<>>]

Containers == {"list", "tuple", "set", "fset", "dict", "item", "ntuple"}
RECURSIVE RoundTree(_, _, _)
RoundTree(x, tol, mode) ==
  IF tol = NoTol THEN x
  ELSE IF x.t = "float" THEN RoundLeaf(x, tol)
  ELSE IF x.t \notin Containers THEN x
  ELSE IF mode = "top" THEN x
  ELSE IF mode = "shallow"
       THEN IF x.t \in {"list", "tuple", "set", "fset", "ntuple"}
            THEN [x EXCEPT !.c = [i \in 1..Len(x.c) |-> IF x.c[i].t = "float" THEN RoundLeaf(x.c[i], tol) ELSE x.c[i]]]
            ELSE x
       ELSE [x EXCEPT !.c = [i \in 1..Len(x.c) |-> RoundTree(x.c[i], tol, "deep")]]
RoundCall(call, tol, mode) == [i \in 1..Len(call) |-> RoundTree(call[i], tol, mode)]

(***************************************************************************)
(* Two equalities on trees.                                                *)
(*   strict = TRUE   identical: same types, same numbers, same order       *)
(*                   (what every encoder preserves)                        *)
(*   strict = FALSE  Python's ==: 1 == 1.0 == True, set == frozenset,      *)
(*                   dicts unordered                                       *)
(***************************************************************************)
Num == {"float", "int", "bool"}
RECURSIVE EqT(_, _, _)
EqT(a, b, strict) ==
  IF a.t \in Num /\ b.t \in Num THEN (strict => a.t = b.t) /\ a.v * b.d = b.v * a.d
  ELSE IF a.t \in {"set", "fset"} /\ b.t \in {"set", "fset"}
       \* members of a set collapse by ==: which of 2 and 2.0 survives is not specified, so members are
       \* compared with Python's == even for identity
       THEN /\ strict => a.t = b.t
            /\ \A i \in 1..Len(a.c) : \E j \in 1..Len(b.c) : EqT(a.c[i], b.c[j], FALSE)
            /\ \A j \in 1..Len(b.c) : \E i \in 1..Len(a.c) : EqT(a.c[i], b.c[j], FALSE)
  ELSE IF a.t # b.t THEN FALSE
  ELSE IF a.t \in {"str", "none", "other", "range", "ipnet", "iter", "cls", "badit"} THEN a.v = b.v
  ELSE IF a.t \in {"list", "tuple", "ntuple"} \/ (a.t \in {"dict", "cmap"} /\ strict)
       THEN Len(a.c) = Len(b.c) /\ \A i \in 1..Len(a.c) : EqT(a.c[i], b.c[i], strict)
  ELSE IF a.t \in {"dict", "cmap"}
       THEN /\ Len(a.c) = Len(b.c)
            /\ \A i \in 1..Len(a.c) : \E j \in 1..Len(b.c) : EqT(a.c[i], b.c[j], strict)
  ELSE IF a.t = "item" THEN a.v = b.v /\ a.d = b.d /\ EqT(a.c[1], b.c[1], strict)
  ELSE FALSE
EqCall(a, b, strict) == Len(a) = Len(b) /\ \A i \in 1..Len(a) : EqT(a[i], b[i], strict)

\* the statement promises rounding inside lists, tuples, sets and dicts; for containers that cannot be rebuilt
\* generically (range, namedtuple) it only promises that the call does not fail: no merging is demanded
RECURSIVE HasOpaque(_)
HasOpaque(x) == x.t \in {"range", "ntuple", "ipnet", "iter", "cmap"} \/ \E i \in 1..Len(x.c) : HasOpaque(x.c[i])
RECURSIVE HasSet(_)
HasSet(x) == x.t \in {"set", "fset"} \/ \E i \in 1..Len(x.c) : HasSet(x.c[i])
\* the textual / pickled form of a set depends on its iteration order, which the statement does not fix:
\* merging is only demanded for order-insensitive keys (raw) or set-free arguments
OrderSafe(call, km) == /\ km.enc = "raw" \/ \A i \in 1..Len(call) : ~HasSet(call[i])
                       /\ \A i \in 1..Len(call) : ~HasOpaque(call[i])

(***************************************************************************)
(* Judging one recorded call of a decorated function.                      *)
(* cfg = [tol, mode, km = [enc], cached : BOOLEAN]                         *)
(* S.seen = earlier successful calls: [r (rounded call), kc (key class),   *)
(*          o (the call as made)]                                          *)
(* e = [call, kc, kind ("hit"/"miss"/"none"), evals, exc, base (outcome of *)
(*      the same call with tol = None), recv (what the function received,  *)
(*      <<>> when it was not evaluated)]                                   *)
(***************************************************************************)
\* two calls must get different keys when their rounded arguments are unequal (Python ==); where an argument
\* holds a container that cannot be rebuilt (it may be keyed rounded or as it is) both forms must be unequal
OpaqueCall(call) == \E i \in 1..Len(call) : HasOpaque(call[i])
Differ(s, call, r) == /\ ~EqCall(s.r, r, FALSE)
                      /\ (OpaqueCall(call) \/ OpaqueCall(s.o)) => ~EqCall(s.o, call, FALSE)

Failed(props, cfg, S, e) ==
  LET r  == RoundCall(e.call, cfg.tol, cfg.mode)
      ok == e.exc = "none"
      same == {s \in S.seen : EqCall(s.r, r, TRUE)}
  IN IF e.base # "none" THEN {}          \* not a valid call for this configuration even without rounding
     ELSE Chk(props, "C12", "C12.NeverFails", ok)
     \cup Chk(props, "C12", "C12.Merges", (ok /\ OrderSafe(e.call, cfg.km)) => \A s \in same : s.kc = e.kc)
     \cup Chk(props, "C12", "C12.MergedIsHit", (ok /\ cfg.cached /\ OrderSafe(e.call, cfg.km) /\ same # {})
                                                 => e.kind \in {"hit", "load"} /\ e.evals = 0)
     \cup Chk(props, "C12", "C12.Separates", ok => \A s \in S.seen : Differ(s, e.call, r) => s.kc # e.kc)
     \cup Chk(props, "C12", "C12.SeparateIsMiss", (ok /\ cfg.cached /\ \A s \in S.seen : Differ(s, e.call, r))
                                                 => e.kind = "miss" /\ e.evals = 1)
     \cup Chk(props, "C12", "C12.ReceivesOriginal", (ok /\ e.evals > 0) => EqCall(e.recv, e.call, TRUE))

Adopt(cfg, S, e) ==
  IF e.exc = "none" /\ e.base = "none"
  THEN [seen |-> S.seen \cup {[r |-> RoundCall(e.call, cfg.tol, cfg.mode), kc |-> e.kc, o |-> e.call]}]
  ELSE S

(* the standalone decorators hand the rounded arguments to the function, by design *)
FailedStandalone(props, cfg, e) ==
  LET r == RoundCall(e.call, cfg.tol, cfg.mode)
  IN   Chk(props, "C12", "C12.StandaloneNeverFails", e.exc = "none")
  \cup Chk(props, "C12", "C12.StandaloneRounds", e.exc = "none" =>
             (Len(e.recv) = Len(r) /\ \A i \in 1..Len(r) :
                 (EqT(e.recv[i], r[i], TRUE) \/ (HasOpaque(e.call[i]) /\ EqT(e.recv[i], e.call[i], TRUE)))))
=============================================================================

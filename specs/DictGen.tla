------------------------------ MODULE DictGen ------------------------------
(* behaviour generation from DictImpl: complete walks print their operation history as JSON *)
EXTENDS DictImpl, Json
Emit == (n = DEPTH) => PrintT(<<"HIST", ToJson([ops |-> hist])>>)
=============================================================================
